package verifsim

import (
	"context"
	"fmt"
	"io"
	"sort"
	"strings"
	"time"

	"github.com/anishathalye/porcupine"
	"google.golang.org/grpc"
	"google.golang.org/grpc/codes"
	"google.golang.org/grpc/metadata"
	"google.golang.org/grpc/status"
	"google.golang.org/protobuf/proto"
	"google.golang.org/protobuf/reflect/protoreflect"
	"google.golang.org/protobuf/reflect/protoregistry"
	"google.golang.org/protobuf/types/known/durationpb"

	"github.com/smart-core-os/sc-golang/pkg/middleware/name"
	"github.com/smart-core-os/sc-golang/pkg/router"
)

// C12 — routers deliver each request to the client registered under its name (DESIGN.md §5 C12).

type svcEntry struct {
	Pkg, Prefix string
	Desc        *grpc.ServiceDesc
	NewRouter   func(opts ...router.Option) (any, router.Router)
	NewClient   func(cc grpc.ClientConnInterface) any
	Wrap        func(server any) (any, grpc.ClientConnInterface)
	IsClient    func(any) bool
	IsServer    func(any) bool
}

type modelEntry struct {
	Pkg       string
	NewModel  func() any
	NewServer func(model any) any
	NewMemory func() any
	Skipped   []string
}

func init() {
	register(&Scenario{Name: "route-forward", Prop: "C12", Faulty: true, Doc: "for a tape-chosen generated router (all discovered from the source tree) and method of its service descriptor: named fake backends (typed clients over a recording grpc.ClientConnInterface), factory and fallback; request built by reflection; unary result/status or a stream script (header, k messages, trailer, error at any position), caller-side send error at message j, unknown names; exactly-one-call / pass-through oracle; default-name interceptors",
		Run:  routeForwardRun,
		Real: []string{"every generated *_router.pb.go (65, discovered)", "pkg/router", "pkg/middleware/name", "service descriptors and typed client stubs of sc-api"}, Stub: []string{"backend grpc.ClientConnInterface (recording, scripted)", "caller grpc.ServerStream"}})
	register(&Scenario{Name: "route-registry", Prop: "C12", Doc: "1-3 tasks issue Add/Remove/Has/Get on one router with factory, fallback and change callback, parked at the router's lock gates and at the miss->factory->insert window; history checked with porcupine against a map model (concurrent first Gets commit one factory client), change callbacks == transitions",
		Run:  routeRegistryRun,
		Real: []string{"pkg/router"}, Stub: []string{"caller tasks", "factory/fallback/callback functions"}})
}

// ---- reflection helpers ------------------------------------------------------------------------------------------------

// (dict: strings the system under test is known to use - ids, mode names, map keys - harvested by the caller; generated
// strings come from it half of the time, the way a fuzzer uses a dictionary)
type prng struct {
	s    uint64
	dict []string
	keys []string // the harvested strings that were map keys: generated string map keys mostly come from here
	last string   // the pool id drawn last (see poolID)
}

func (p *prng) n(k int) int {
	p.s = splitmix(p.s)
	if k <= 0 {
		return 0
	}
	return int(p.s>>17) % k
}

// fillMessage sets fields of m to small pseudo-random values (scalars, enums, nested messages, short lists).
func fillMessage(m protoreflect.Message, p *prng, depth int) {
	fds := m.Descriptor().Fields()
	if m.Descriptor().FullName() == "smartcore.types.Tween" && p.n(4) != 0 {
		// mostly the one shape a server accepts as "do this over time": a positive total duration and nothing else
		if fd := fds.ByName("total_duration"); fd != nil {
			m.Set(fd, protoreflect.ValueOfMessage(durationpb.New(time.Duration(100+p.n(3000))*time.Millisecond).ProtoReflect()))
			return
		}
	}
	for i := 0; i < fds.Len(); i++ {
		fd := fds.Get(i)
		if p.n(3) == 0 {
			continue
		}
		if fd.ContainingOneof() != nil && !fd.HasOptionalKeyword() && p.n(2) == 0 {
			continue
		}
		switch {
		case fd.IsMap():
			mp := m.Mutable(fd).Map()
			for k := p.n(3); k > 0; k-- {
				key := scalarValue(fd.MapKey(), p).MapKey()
				if fd.MapKey().Kind() == protoreflect.StringKind && len(p.keys) > 0 && p.n(4) != 0 {
					key = protoreflect.ValueOfString(p.keys[p.n(len(p.keys))]).MapKey()
				}
				if fd.MapValue().Kind() == protoreflect.MessageKind {
					if depth <= 0 {
						continue
					}
					v := mp.NewValue()
					fillMessage(v.Message(), p, depth-1)
					mp.Set(key, v)
				} else {
					mp.Set(key, scalarValue(fd.MapValue(), p))
				}
			}
		case fd.IsList():
			if fd.Kind() == protoreflect.MessageKind && depth <= 0 {
				continue
			}
			l := m.Mutable(fd).List()
			for k := p.n(3); k > 0; k-- {
				if fd.Kind() == protoreflect.MessageKind {
					e := l.NewElement()
					fillMessage(e.Message(), p, depth-1)
					l.Append(e)
				} else {
					l.Append(scalarValue(fd, p))
				}
			}
		case fd.Kind() == protoreflect.MessageKind || fd.Kind() == protoreflect.GroupKind:
			if depth <= 0 {
				continue
			}
			fillMessage(m.Mutable(fd).Message(), p, depth-1)
		default:
			m.Set(fd, scalarValue(fd, p))
		}
	}
}

func scalarValue(fd protoreflect.FieldDescriptor, p *prng) protoreflect.Value {
	switch fd.Kind() {
	case protoreflect.BoolKind:
		return protoreflect.ValueOfBool(p.n(2) == 1)
	case protoreflect.EnumKind:
		vs := fd.Enum().Values()
		return protoreflect.ValueOfEnum(vs.Get(p.n(vs.Len())).Number())
	case protoreflect.Int32Kind, protoreflect.Sint32Kind, protoreflect.Sfixed32Kind:
		return protoreflect.ValueOfInt32(int32(1 + p.n(50)))
	case protoreflect.Int64Kind, protoreflect.Sint64Kind, protoreflect.Sfixed64Kind:
		return protoreflect.ValueOfInt64(int64(1 + p.n(50)))
	case protoreflect.Uint32Kind, protoreflect.Fixed32Kind:
		return protoreflect.ValueOfUint32(uint32(1 + p.n(50)))
	case protoreflect.Uint64Kind, protoreflect.Fixed64Kind:
		return protoreflect.ValueOfUint64(uint64(1 + p.n(50)))
	case protoreflect.FloatKind:
		return protoreflect.ValueOfFloat32(float32(1 + p.n(50)))
	case protoreflect.DoubleKind:
		return protoreflect.ValueOfFloat64(float64(1 + p.n(50)))
	case protoreflect.StringKind:
		if len(p.dict) > 0 && p.n(2) == 0 {
			return protoreflect.ValueOfString(p.dict[p.n(len(p.dict))])
		}
		return protoreflect.ValueOfString(fmt.Sprintf("s%d", p.n(50)))
	case protoreflect.BytesKind:
		return protoreflect.ValueOfBytes([]byte{byte(p.n(250)), 1})
	}
	return fd.Default()
}

// harvestStrings collects the strings (and string map keys) a message uses, for the generator's dictionary.
func harvestStrings(m protoreflect.Message, out *[]string, keys *[]string, depth int) {
	if !m.IsValid() || depth < 0 || len(*out) > 40 {
		return
	}
	addKey := func(s string) {
		for _, x := range *keys {
			if x == s {
				return
			}
		}
		if s != "" && len(*keys) < 20 {
			*keys = append(*keys, s)
		}
	}
	add := func(s string) {
		if s == "" || len(s) > 40 {
			return
		}
		for _, x := range *out {
			if x == s {
				return
			}
		}
		*out = append(*out, s)
	}
	m.Range(func(fd protoreflect.FieldDescriptor, v protoreflect.Value) bool {
		switch {
		case fd.IsMap():
			v.Map().Range(func(k protoreflect.MapKey, mv protoreflect.Value) bool {
				if fd.MapKey().Kind() == protoreflect.StringKind {
					add(k.String())
					addKey(k.String())
				}
				if fd.MapValue().Kind() == protoreflect.StringKind {
					add(mv.String())
				} else if fd.MapValue().Kind() == protoreflect.MessageKind {
					harvestStrings(mv.Message(), out, keys, depth-1)
				}
				return true
			})
		case fd.IsList():
			l := v.List()
			for i := 0; i < l.Len() && i < 6; i++ {
				if fd.Kind() == protoreflect.StringKind {
					add(l.Get(i).String())
				} else if fd.Kind() == protoreflect.MessageKind {
					harvestStrings(l.Get(i).Message(), out, keys, depth-1)
				}
			}
		case fd.Kind() == protoreflect.StringKind:
			add(v.String())
		case fd.Kind() == protoreflect.MessageKind:
			harvestStrings(v.Message(), out, keys, depth-1)
		}
		return true
	})
}

func setName(m proto.Message, n string) bool {
	fd := m.ProtoReflect().Descriptor().Fields().ByName("name")
	if fd == nil || fd.Kind() != protoreflect.StringKind || fd.IsList() {
		return false
	}
	m.ProtoReflect().Set(fd, protoreflect.ValueOfString(n))
	return true
}

func getName(m proto.Message) string {
	fd := m.ProtoReflect().Descriptor().Fields().ByName("name")
	if fd == nil || fd.Kind() != protoreflect.StringKind || fd.IsList() {
		return ""
	}
	return m.ProtoReflect().Get(fd).String()
}

// ---- fake backend ----------------------------------------------------------------------------------------------------------

type backendCall struct {
	backend string
	method  string
	req     proto.Message
	stream  *fakeClientStream
}

type backendScript struct {
	fill    *prng
	err     error // unary: returned error (nil = success); stream: terminal error after the messages (nil = io.EOF)
	nmsgs   int
	header  metadata.MD
	hdrErr  error
	trailer metadata.MD
	openErr error
}

type fakeConn struct {
	name   string
	calls  *[]backendCall
	script *backendScript
	sent   *[]proto.Message // what the backend answered (clones), for pass-through comparison
}

func (c *fakeConn) Invoke(ctx context.Context, method string, args any, reply any, opts ...grpc.CallOption) error {
	*c.calls = append(*c.calls, backendCall{backend: c.name, method: method, req: proto.Clone(args.(proto.Message))})
	if c.script.err != nil {
		return c.script.err
	}
	fillMessage(reply.(proto.Message).ProtoReflect(), c.script.fill, 2)
	*c.sent = append(*c.sent, proto.Clone(reply.(proto.Message)))
	return nil
}

func (c *fakeConn) NewStream(ctx context.Context, desc *grpc.StreamDesc, method string, opts ...grpc.CallOption) (grpc.ClientStream, error) {
	if c.script.openErr != nil {
		*c.calls = append(*c.calls, backendCall{backend: c.name, method: method})
		return nil, c.script.openErr
	}
	st := &fakeClientStream{conn: c, ctx: ctx}
	*c.calls = append(*c.calls, backendCall{backend: c.name, method: method, stream: st})
	return st, nil
}

type fakeClientStream struct {
	conn      *fakeConn
	ctx       context.Context
	req       proto.Message
	closeSent bool
	n         int
}

func (s *fakeClientStream) Header() (metadata.MD, error) {
	return s.conn.script.header, s.conn.script.hdrErr
}
func (s *fakeClientStream) Trailer() metadata.MD     { return s.conn.script.trailer }
func (s *fakeClientStream) CloseSend() error         { s.closeSent = true; return nil }
func (s *fakeClientStream) Context() context.Context { return s.ctx }
func (s *fakeClientStream) SendMsg(m any) error {
	s.req = proto.Clone(m.(proto.Message))
	for i := range *s.conn.calls {
		if (*s.conn.calls)[i].stream == s {
			(*s.conn.calls)[i].req = s.req
		}
	}
	return nil
}
func (s *fakeClientStream) RecvMsg(m any) error {
	if s.n >= s.conn.script.nmsgs {
		if s.conn.script.err != nil {
			return s.conn.script.err
		}
		return io.EOF
	}
	s.n++
	fillMessage(m.(proto.Message).ProtoReflect(), s.conn.script.fill, 2)
	*s.conn.sent = append(*s.conn.sent, proto.Clone(m.(proto.Message)))
	return nil
}

// fakeServerStream is the caller's side of a streaming call into the router.
type fakeServerStream struct {
	ctx      context.Context
	req      proto.Message // template: merged into the handler's request message
	gotReq   bool
	sent     []proto.Message
	header   metadata.MD
	hdrSent  bool
	trailer  metadata.MD
	failAt   int // SendMsg number failAt (1-based) fails; 0 = never
	sendErr  error
	nameHook func(m proto.Message)
}

func (s *fakeServerStream) SetHeader(md metadata.MD) error {
	s.header = metadata.Join(s.header, md)
	return nil
}
func (s *fakeServerStream) SendHeader(md metadata.MD) error {
	s.header = metadata.Join(s.header, md)
	s.hdrSent = true
	return nil
}
func (s *fakeServerStream) SetTrailer(md metadata.MD) { s.trailer = metadata.Join(s.trailer, md) }
func (s *fakeServerStream) Context() context.Context  { return s.ctx }
func (s *fakeServerStream) SendMsg(m any) error {
	if s.failAt > 0 && len(s.sent)+1 == s.failAt {
		return s.sendErr
	}
	s.sent = append(s.sent, proto.Clone(m.(proto.Message)))
	return nil
}
func (s *fakeServerStream) RecvMsg(m any) error {
	if s.gotReq {
		return io.EOF
	}
	s.gotReq = true
	if s.nameHook != nil {
		s.nameHook(m.(proto.Message))
	}
	return nil
}

func mdString(md metadata.MD) string {
	var keys []string
	for k := range md {
		keys = append(keys, k)
	}
	sort.Strings(keys)
	var p []string
	for _, k := range keys {
		p = append(p, k+"="+strings.Join(md[k], ","))
	}
	return "{" + strings.Join(p, " ") + "}"
}

// ---- route-forward --------------------------------------------------------------------------------------------------------

func routeForwardRun(w *World) {
	t := w.Tape
	if len(svcRegistry) != discoveredRouterFiles {
		w.Violate("harness-discovery", fmt.Sprintf("registry has %d entries for %d router files", len(svcRegistry), discoveredRouterFiles), nil)
		return
	}
	e := svcRegistry[t.Choose(len(svcRegistry))]
	nm, ns := len(e.Desc.Methods), len(e.Desc.Streams)
	if nm+ns == 0 {
		return
	}
	total := 0
	for _, x := range svcRegistry {
		total += len(x.Desc.Methods) + len(x.Desc.Streams)
	}
	w.SetCaseTotal(total)
	mi := t.Choose(nm + ns)
	p := &prng{s: uint64(1 + t.Choose(1<<20))}
	var calls []backendCall
	var answered []proto.Message
	script := &backendScript{fill: p}
	mkFake := func(n string) any {
		return e.NewClient(&fakeConn{name: n, calls: &calls, script: script, sent: &answered})
	}
	// In one run of four the clients the router knows are not the backends themselves but wrapped servers: in-process
	// connections (pkg/wrap, as the generated WrapApi functions build them) to a second router of the same service, which
	// knows the scripted backends under the same names. Everything said about pass-through then holds across that hop
	// as well, whichever way the hop's handler goroutine and the forwarding router interleave.
	hop := t.Flag(1, 4)
	var hopConn grpc.ClientConnInterface
	if hop {
		innerSrv, _ := e.NewRouter(router.WithFactory(func(n string) (any, error) { return mkFake(n), nil }))
		_, hopConn = e.Wrap(innerSrv)
		w.Fault("wrapped-hop")
	}
	mkClient := func(n string) any {
		if hop {
			return e.NewClient(hopConn)
		}
		return mkFake(n)
	}
	factoryCalls, fallbackCalls := 0, 0
	var opts []router.Option
	hasFactory, hasFallback := t.Flag(1, 2), t.Flag(1, 2)
	fallbackFails := t.Flag(1, 2)
	if hasFactory {
		opts = append(opts, router.WithFactory(func(n string) (any, error) {
			factoryCalls++
			if strings.HasPrefix(n, "f") {
				return mkClient(n), nil
			}
			if n == "ferr" {
				return nil, status.Error(codes.Internal, "factory failed")
			}
			return nil, nil
		}))
	}
	if hasFallback {
		opts = append(opts, router.WithFallback(func(n string) (any, error) {
			fallbackCalls++
			if strings.HasPrefix(n, "b") {
				return mkClient(n), nil
			}
			if fallbackFails {
				// (a fallback that asks somebody else - a parent router, say - and passes on what it was told)
				return nil, status.Error(codes.NotFound, "fallback: "+n)
			}
			return nil, nil
		}))
	}
	srv, r := e.NewRouter(opts...)
	if !e.IsServer(srv) {
		w.Violate("router-type", fmt.Sprintf("%s.%s router does not implement its server interface", e.Pkg, e.Prefix), nil)
		return
	}
	for _, n := range []string{"n1", "n2"} {
		r.Add(n, mkClient(n))
	}
	names := []string{"n1", "n2", "f1", "b1", "unknown", "", "n1", "n2"}
	target := names[t.Choose(len(names))]
	// default-name interceptor in front of the router
	defName := ""
	if t.Flag(1, 3) {
		defName = []string{"n1", "n2", "unknown"}[t.Choose(3)]
	}
	effective := target
	if target == "" && defName != "" {
		effective = defName
	}
	routable := effective == "n1" || effective == "n2" || (hasFactory && effective == "f1") || (hasFallback && effective == "b1")
	// backend behaviour
	if t.Flag(1, 3) {
		script.err = status.Error([]codes.Code{codes.NotFound, codes.Internal, codes.Unavailable, codes.FailedPrecondition}[t.Choose(4)], fmt.Sprintf("backend says no %d", t.Choose(9)))
	}
	ctx, cancel := context.WithCancel(context.Background())
	defer cancel()
	var reqSent proto.Message
	desc := fmt.Sprintf("%s.%s", e.Pkg, e.Prefix)
	key := func() map[string]any { return map[string]any{"router": desc, "wrapped_hop": hop} }

	if mi < nm {
		md := e.Desc.Methods[mi]
		desc += "." + md.MethodName
		w.SetCase(desc)
		w.MarkNontrivial()
		w.Mix(desc + "|" + target)
		full := "/" + e.Desc.ServiceName + "/" + md.MethodName
		dec := func(m any) error {
			msg := m.(proto.Message)
			fillMessage(msg.ProtoReflect(), p, 2)
			if !setName(msg, target) {
				return fmt.Errorf("request %T has no name field", m)
			}
			reqSent = proto.Clone(msg)
			return nil
		}
		var interceptor grpc.UnaryServerInterceptor
		if defName != "" {
			interceptor = name.IfAbsentUnaryInterceptor(defName)
		}
		var res any
		var err error
		w.Go("caller", false, func(*Task) { res, err = md.Handler(srv, ctx, dec, interceptor) })
		w.Run()
		w.Note("%s name=%q default=%q -> %v calls=%d", desc, target, defName, err, len(calls))
		if reqSent == nil {
			w.Violate("harness-route", desc+": handler never decoded a request: "+fmt.Sprint(err), nil)
			return
		}
		want := proto.Clone(reqSent)
		setName(want, effective)
		if !routable {
			if status.Code(err) != codes.NotFound || len(calls) != 0 {
				w.Violate("unknown-name", fmt.Sprintf("%s with unknown name %q: got err=%v and %d backend calls, expected NotFound and none", desc, effective, err, len(calls)), key())
			}
			return
		}
		if len(calls) != 1 || calls[0].backend != effective || calls[0].method != full {
			w.Violate("misrouted", fmt.Sprintf("%s name %q: backend calls %v, expected exactly one %s on %q", desc, effective, describeCalls(calls), full, effective), key())
			return
		}
		if !proto.Equal(calls[0].req, want) {
			w.Violate("request-altered", fmt.Sprintf("%s: backend received %v, caller sent %v (default name %q)", desc, calls[0].req, reqSent, defName), key())
		}
		if script.err != nil {
			if status.Code(err) != status.Code(script.err) || status.Convert(err).Message() != status.Convert(script.err).Message() {
				w.Violate("status-altered", fmt.Sprintf("%s: backend returned %v, caller got %v", desc, script.err, err), key())
			}
			return
		}
		if err != nil || len(answered) != 1 || !proto.Equal(res.(proto.Message), answered[0]) {
			w.Violate("response-altered", fmt.Sprintf("%s: backend answered %v, caller got %v err=%v", desc, answered, res, err), key())
		}
		return
	}
	sd := e.Desc.Streams[mi-nm]
	desc += "." + sd.StreamName
	w.SetCase(desc)
	w.MarkNontrivial()
	w.Mix(desc + "|" + target)
	if sd.ClientStreams {
		w.Note("%s is client-streaming: not covered", desc)
		return
	}
	full := "/" + e.Desc.ServiceName + "/" + sd.StreamName
	script.nmsgs = t.Choose(5)
	if t.Flag(1, 2) {
		script.header = metadata.Pairs("x-h", fmt.Sprint("h", t.Choose(9)))
	}
	if t.Flag(1, 2) {
		script.trailer = metadata.Pairs("x-t", fmt.Sprint("t", t.Choose(9)))
	}
	if t.Flag(1, 8) {
		script.openErr = status.Error(codes.Unavailable, "cannot open")
	}
	ss := &fakeServerStream{ctx: ctx}
	if script.nmsgs > 0 && t.Flag(1, 4) {
		ss.failAt = 1 + t.Choose(script.nmsgs)
		ss.sendErr = status.Error(codes.Unavailable, "caller went away")
		w.Fault("send-err")
	}
	ss.nameHook = func(m proto.Message) {
		fillMessage(m.ProtoReflect(), p, 2)
		setName(m, target)
		reqSent = proto.Clone(m)
	}
	if defName != "" && t.Flag(1, 2) {
		// the interceptor on its own, on a stream that carries several requests (the routed services have none of that
		// shape today; the interceptor is not tied to them): every request with an empty name gets the default, every
		// other one keeps its name
		if d, derr := protoregistry.GlobalFiles.FindDescriptorByName(protoreflect.FullName(e.Desc.ServiceName)); derr == nil {
			if mdsc := d.(protoreflect.ServiceDescriptor).Methods().ByName(protoreflect.Name(sd.StreamName)); mdsc != nil {
				k := 2 + t.Choose(3)
				var given, got []string
				for i := 0; i < k; i++ {
					given = append(given, []string{"", "n1", "elsewhere", ""}[t.Choose(4)])
				}
				ms := &fakeServerStream{ctx: ctx}
				herr := name.IfAbsentStreamInterceptor(defName)(nil, ms, &grpc.StreamServerInfo{FullMethod: full, IsClientStream: true, IsServerStream: true}, func(_ any, st grpc.ServerStream) error {
					for i := 0; i < k; i++ {
						i := i
						ms.gotReq, ms.nameHook = false, func(m proto.Message) { setName(m, given[i]) }
						m := newMsg(mdsc.Input())
						if err := st.RecvMsg(m); err != nil {
							return err
						}
						got = append(got, getName(m))
					}
					return nil
				})
				for i := 0; i < k && herr == nil; i++ {
					want := given[i]
					if want == "" {
						want = defName
					}
					if i >= len(got) || got[i] != want {
						w.Violate("default-name", fmt.Sprintf("%s: stream interceptor with default %q: requests arrived with names %q, the handler received %q", desc, defName, given, got), key())
						break
					}
				}
				if herr != nil {
					w.Violate("default-name", fmt.Sprintf("%s: stream interceptor: %v", desc, herr), key())
				}
			}
		}
	}
	var stream grpc.ServerStream = ss
	var err error
	w.Go("caller", false, func(*Task) {
		if defName != "" {
			err = name.IfAbsentStreamInterceptor(defName)(srv, stream, &grpc.StreamServerInfo{FullMethod: full, IsServerStream: true}, sd.Handler)
		} else {
			err = sd.Handler(srv, stream)
		}
	})
	w.Run()
	w.Note("%s name=%q default=%q msgs=%d failAt=%d -> %v calls=%d sent=%d", desc, target, defName, script.nmsgs, ss.failAt, err, len(calls), len(ss.sent))
	if reqSent == nil {
		w.Violate("harness-route", desc+": handler never received a request: "+fmt.Sprint(err), nil)
		return
	}
	want := proto.Clone(reqSent)
	setName(want, effective)
	if !routable {
		if status.Code(err) != codes.NotFound || len(calls) != 0 {
			w.Violate("unknown-name", fmt.Sprintf("%s with unknown name %q: got err=%v and %d backend calls, expected NotFound and none", desc, effective, err, len(calls)), key())
		}
		return
	}
	if len(calls) != 1 || calls[0].backend != effective || calls[0].method != full {
		w.Violate("misrouted", fmt.Sprintf("%s name %q: backend calls %v, expected exactly one %s on %q", desc, effective, describeCalls(calls), full, effective), key())
		return
	}
	if script.openErr != nil {
		if status.Code(err) != codes.Unavailable {
			w.Violate("status-altered", fmt.Sprintf("%s: backend refused the stream with %v, caller got %v", desc, script.openErr, err), key())
		}
		return
	}
	if !proto.Equal(calls[0].req, want) {
		w.Violate("request-altered", fmt.Sprintf("%s: backend received %v, caller sent %v (default name %q)", desc, calls[0].req, reqSent, defName), key())
	}
	if mdString(ss.header) != mdString(script.header) {
		w.Violate("header-altered", fmt.Sprintf("%s: backend header %s, caller got %s", desc, mdString(script.header), mdString(ss.header)), key())
	}
	wantN := script.nmsgs
	if ss.failAt > 0 {
		wantN = ss.failAt - 1
	}
	if len(ss.sent) != wantN {
		w.Violate("response-altered", fmt.Sprintf("%s: caller received %d messages, expected %d", desc, len(ss.sent), wantN), key())
		return
	}
	for i := range ss.sent {
		if !proto.Equal(ss.sent[i], answered[i]) {
			w.Violate("response-altered", fmt.Sprintf("%s: message %d: backend sent %v, caller got %v", desc, i, answered[i], ss.sent[i]), key())
		}
	}
	if ss.failAt > 0 {
		if status.Code(err) != codes.Unavailable {
			w.Violate("status-altered", fmt.Sprintf("%s: the caller's Send failed with %v, the handler returned %v", desc, ss.sendErr, err), key())
		}
		if calls[0].stream.ctx.Err() == nil {
			w.Violate("backend-not-cancelled", fmt.Sprintf("%s: the caller went away (send error) but the backend stream's context was not cancelled", desc), key())
		}
		return
	}
	if mdString(ss.trailer) != mdString(script.trailer) {
		w.Violate("trailer-altered", fmt.Sprintf("%s: backend trailer %s, caller got %s", desc, mdString(script.trailer), mdString(ss.trailer)), key())
	}
	if script.err != nil {
		if status.Code(err) != status.Code(script.err) || status.Convert(err).Message() != status.Convert(script.err).Message() {
			w.Violate("status-altered", fmt.Sprintf("%s: backend ended the stream with %v, caller got %v", desc, script.err, err), key())
		}
	} else if err != nil {
		w.Violate("status-altered", fmt.Sprintf("%s: backend ended the stream normally, caller got %v", desc, err), key())
	}
}

func describeCalls(c []backendCall) string {
	var p []string
	for _, x := range c {
		p = append(p, x.backend+":"+x.method)
	}
	return "[" + strings.Join(p, " ") + "]"
}

// ---- route-registry --------------------------------------------------------------------------------------------------------

type regOp struct {
	Kind   string // add remove has get
	Name   string
	Client string // add: the client being added
}

type regRes struct {
	Client   string // returned client ("" = nil)
	Found    bool
	Code     codes.Code
	Produced []string // clients this call's factory invocations produced
}

func (o regOp) String() string {
	if o.Kind == "add" {
		return fmt.Sprintf("add(%s,%s)", o.Name, o.Client)
	}
	return fmt.Sprintf("%s(%s)", o.Kind, o.Name)
}

type regClient struct{ id string }

// regValueClient is a client that is a plain value of a type that cannot be compared (it has a func field): the router
// holds clients as `any` and has no business comparing them.
type regValueClient struct {
	id string
	fn func()
}

func routeRegistryRun(w *World) {
	t := w.Tape
	hasFactory, hasFallback := t.Flag(2, 3), t.Flag(1, 3)
	fallbackFails := t.Flag(1, 2)
	nextID := 0
	type change struct {
		name, old, new string
		auto           bool
	}
	var changes []change
	idOf := func(c any) string {
		if c == nil {
			return ""
		}
		if v, ok := c.(regValueClient); ok {
			return v.id
		}
		return c.(*regClient).id
	}
	// (in one run of four the clients that callers add are values of an uncomparable type)
	valueClients := t.Flag(1, 4)
	mkAdded := func(id string) any {
		if valueClients {
			return regValueClient{id: id, fn: func() {}}
		}
		return &regClient{id: id}
	}
	var opts []router.Option
	// the factory records which call it was invoked for through a per-task slot
	producedBy := map[string]*[]string{}
	if hasFactory {
		opts = append(opts, router.WithFactory(func(n string) (any, error) {
			if n == "z" {
				return nil, nil
			}
			if n == "e" {
				return nil, status.Error(codes.Unavailable, "dial e: refused") // a factory that fails outright
			}
			nextID++
			c := &regClient{id: fmt.Sprintf("f%d", nextID)}
			if cur := w.lookup(goid()); cur != nil {
				if p := producedBy[cur.Name]; p != nil {
					*p = append(*p, c.id)
				}
			}
			return c, nil
		}))
	}
	if hasFallback {
		opts = append(opts, router.WithFallback(func(n string) (any, error) {
			if n == "b" {
				return &regClient{id: "fallback:b"}, nil
			}
			if fallbackFails {
				return nil, status.Error(codes.NotFound, "fallback: "+n) // what it got from whoever it asked
			}
			return nil, nil
		}))
	}
	opts = append(opts, router.WithOnChange(func(c router.Change) {
		changes = append(changes, change{c.Name, idOf(c.Old), idOf(c.New), c.Auto})
	}))
	r := router.NewRouter(opts...)
	names := []string{"a", "b", "z", "e"}
	nt := 1 + t.Choose(3)
	type rec struct {
		task     string
		op       regOp
		res      regRes
		inv, ret int64
	}
	hist := make([][]rec, nt)
	cid := 0
	for i := 0; i < nt; i++ {
		i := i
		tn := fmt.Sprintf("t%d", i)
		k := 1 + t.Choose(4)
		var ops []regOp
		for j := 0; j < k; j++ {
			o := regOp{Name: names[t.Choose(len(names))]}
			switch t.Choose(6) {
			case 0:
				cid++
				o.Kind, o.Client = "add", fmt.Sprintf("c%d", cid)
			case 1:
				o.Kind = "remove"
			case 2:
				o.Kind = "has"
			default:
				o.Kind = "get"
			}
			ops = append(ops, o)
		}
		w.Go(tn, false, func(task *Task) {
			for _, o := range ops {
				task.Yield("op")
				var produced []string
				producedBy[tn] = &produced
				x := rec{task: tn, op: o, inv: w.Step()}
				switch o.Kind {
				case "add":
					x.res.Client = idOf(r.Add(o.Name, mkAdded(o.Client)))
				case "remove":
					x.res.Client = idOf(r.Remove(o.Name))
				case "has":
					x.res.Found = r.Has(o.Name)
				case "get":
					c, err := r.Get(o.Name)
					x.res.Code = errCode(err)
					if c != nil {
						x.res.Client = idOf(c) // (also next to an error: an answer is a client or an error, never both)
					}
				}
				x.res.Produced = produced
				x.ret = w.Step()
				hist[i] = append(hist[i], x)
				task.Note("[%d,%d] %s -> %+v", x.inv, x.ret, o, x.res)
			}
		})
	}
	w.Run()
	if w.truncated {
		return
	}
	if w.Deadlocked || len(w.Unfinished(false)) > 0 {
		w.Violate("deadlock", "router callers did not finish: "+strings.Join(w.Unfinished(true), ","), nil)
		return
	}
	// final Has/Get are part of the history
	var ops []porcupine.Operation
	var all []rec
	for i := range hist {
		all = append(all, hist[i]...)
	}
	fin := w.Step() + 1
	for _, n := range names {
		all = append(all, rec{task: "final", op: regOp{Kind: "has", Name: n}, res: regRes{Found: r.Has(n)}, inv: fin, ret: fin})
		fin++
	}
	for ci, x := range all {
		_ = ci
		ops = append(ops, porcupine.Operation{ClientId: 0, Input: x.op, Output: x.res, Call: x.inv, Return: x.ret})
	}
	model := porcupine.Model{
		Init: func() interface{} { return "" },
		Step: func(state, input, output interface{}) (bool, interface{}) {
			m := decodeReg(state.(string))
			o, res := input.(regOp), output.(regRes)
			switch o.Kind {
			case "add":
				if res.Client != m[o.Name] {
					return false, state
				}
				m[o.Name] = o.Client
			case "remove":
				if res.Client != m[o.Name] {
					return false, state
				}
				delete(m, o.Name)
			case "has":
				_, in := m[o.Name]
				if res.Found != in {
					return false, state
				}
			case "get":
				cur, in := m[o.Name]
				switch {
				case in:
					if res.Code != codes.OK || res.Client != cur {
						return false, state
					}
				case hasFallback && o.Name == "b":
					if res.Code != codes.OK || res.Client != "fallback:b" {
						return false, state
					}
				case hasFactory && o.Name == "e":
					// the factory fails: nothing can be found or created, which is NotFound by the documented contract - and
					// certainly no client next to an error
					if res.Code != codes.NotFound || res.Client != "" {
						return false, state
					}
				case hasFactory && o.Name != "z":
					// absent: the call must have committed a client its own factory invocation produced
					if res.Code != codes.OK || !contains(res.Produced, res.Client) {
						return false, state
					}
					m[o.Name] = res.Client
				default:
					if res.Code != codes.NotFound {
						return false, state
					}
				}
			}
			return true, encodeReg(m)
		},
		DescribeOperation: func(input, output interface{}) string { return fmt.Sprintf("%v -> %+v", input, output) },
	}
	if !porcupine.CheckOperations(model, ops) {
		var sb strings.Builder
		sort.SliceStable(all, func(i, j int) bool { return all[i].inv < all[j].inv })
		for _, x := range all {
			fmt.Fprintf(&sb, "\n  [%d,%d] %s: %s -> %+v", x.inv, x.ret, x.task, x.op, x.res)
		}
		w.Violate("registry-not-linearizable", fmt.Sprintf("factory=%v fallback=%v: no map history explains:%s", hasFactory, hasFallback, sb.String()), nil)
	}
	// change callbacks == transitions derived from the results
	var want, got []string
	for _, x := range all {
		switch x.op.Kind {
		case "add":
			want = append(want, fmt.Sprintf("%s:%s>%s", x.op.Name, x.res.Client, x.op.Client))
		case "remove":
			if x.res.Client != "" {
				want = append(want, fmt.Sprintf("%s:%s>", x.op.Name, x.res.Client))
			}
		case "get":
			if x.res.Code == codes.OK && contains(x.res.Produced, x.res.Client) {
				want = append(want, fmt.Sprintf("%s:>%s auto", x.op.Name, x.res.Client))
			}
		}
	}
	for _, c := range changes {
		s := fmt.Sprintf("%s:%s>%s", c.name, c.old, c.new)
		if c.auto {
			s += " auto"
		}
		got = append(got, s)
	}
	sort.Strings(want)
	sort.Strings(got)
	if strings.Join(want, "|") != strings.Join(got, "|") {
		w.Violate("change-callbacks", fmt.Sprintf("change callbacks %v, transitions derived from the calls' results %v", got, want), nil)
	}
}

func decodeReg(s string) map[string]string {
	m := map[string]string{}
	for _, kv := range strings.Split(s, ";") {
		if i := strings.Index(kv, "="); i > 0 {
			m[kv[:i]] = kv[i+1:]
		}
	}
	return m
}

func encodeReg(m map[string]string) string {
	var ks []string
	for k := range m {
		ks = append(ks, k)
	}
	sort.Strings(ks)
	var p []string
	for _, k := range ks {
		p = append(p, k+"="+m[k])
	}
	return strings.Join(p, ";")
}
