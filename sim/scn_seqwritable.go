package verifsim

import (
	"fmt"

	"google.golang.org/protobuf/proto"
	"google.golang.org/protobuf/types/known/fieldmaskpb"
	"google.golang.org/protobuf/types/known/timestamppb"

	"github.com/smart-core-os/sc-api/go/traits"
	"github.com/smart-core-os/sc-golang/pkg/resource"
)

// C01, writable fields: "Explicit writes to fields not in this mask will fail" - and a failed write changes nothing.
// The message type is one whose field names are prefixes of each other (state / state_change_time), as several trait
// messages' are.

func init() {
	register(&Scenario{Name: "seq-writable", Prop: "C01", Doc: "one caller, a Value or Collection of traits.Occupancy restricted to writable fields {state, people_count}: 1-6 writes with update masks over {state, people_count, state_change_time, confidence, reasons}; a mask naming a field outside the writable ones fails and leaves the stored message as it was, any other mask writes exactly the fields it names",
		Run:  seqWritableRun,
		Real: []string{"pkg/resource Value/Collection", "pkg/masks FieldUpdater"}, Stub: []string{"caller", "reference rule"}})
}

func seqWritableRun(w *World) {
	t := w.Tape
	coll := t.Flag(1, 2)
	initial := &traits.Occupancy{State: traits.Occupancy_OCCUPIED, PeopleCount: 3, StateChangeTime: &timestamppb.Timestamp{Seconds: 100}, Confidence: 0.5, Reasons: []string{"r"}}
	writable := []string{"state", "people_count"}
	var val *resource.Value
	var col *resource.Collection
	if coll {
		col = resource.NewCollection(resource.WithInitialRecord("a", initial), resource.WithWritablePaths(&traits.Occupancy{}, writable...))
	} else {
		val = resource.NewValue(resource.WithInitialValue(initial), resource.WithWritablePaths(&traits.Occupancy{}, writable...))
	}
	get := func() *traits.Occupancy {
		if coll {
			m, _ := col.Get("a")
			return proto.Clone(m).(*traits.Occupancy)
		}
		return proto.Clone(val.Get()).(*traits.Occupancy)
	}
	all := []string{"state", "people_count", "state_change_time", "confidence", "reasons"}
	for i, n := 0, 1+t.Choose(6); i < n; i++ {
		var mask []string
		for _, f := range all {
			if t.Flag(1, 3) {
				mask = append(mask, f)
			}
		}
		if len(mask) == 0 {
			mask = []string{all[t.Choose(len(all))]}
		}
		msg := &traits.Occupancy{State: traits.Occupancy_State(1 + t.Choose(3)), PeopleCount: int32(10 + i), StateChangeTime: &timestamppb.Timestamp{Seconds: int64(200 + i)}, Confidence: float64(i + 1), Reasons: []string{fmt.Sprint("w", i)}}
		before := get()
		var err error
		if coll {
			_, err = col.Update("a", msg, resource.WithUpdateMask(&fieldmaskpb.FieldMask{Paths: mask}))
		} else {
			_, err = val.Set(msg, resource.WithUpdateMask(&fieldmaskpb.FieldMask{Paths: mask}))
		}
		after := get()
		readOnly := ""
		for _, f := range mask {
			if f != "state" && f != "people_count" {
				readOnly = f
			}
		}
		w.Mix(fmt.Sprint(coll, mask))
		w.Note("write mask %v -> %v", mask, err)
		switch {
		case readOnly != "" && err == nil:
			w.Violate("readonly-write-accepted", fmt.Sprintf("%s restricted to writable fields %v: a write with update mask %v (which names %q) was accepted; before %v, after %v", resName(coll), writable, mask, readOnly, before, after), nil)
			return
		case readOnly != "" && !proto.Equal(before, after):
			w.Violate("failed-write-changed-state", fmt.Sprintf("a write with update mask %v failed with %v and changed the stored message from %v to %v", mask, err, before, after), nil)
			return
		case readOnly == "" && err != nil:
			w.Violate("writable-write-rejected", fmt.Sprintf("a write with update mask %v (writable fields only) failed: %v", mask, err), nil)
			return
		case readOnly == "":
			want := proto.Clone(before).(*traits.Occupancy)
			for _, f := range mask {
				if f == "state" {
					want.State = msg.State
				} else {
					want.PeopleCount = msg.PeopleCount
				}
			}
			if !proto.Equal(want, after) {
				w.Violate("model-mismatch", fmt.Sprintf("a write of %v with update mask %v turned %v into %v, expected %v", msg, mask, before, after, want), nil)
				return
			}
		}
	}
	w.MarkNontrivial()
}
