//go:build !race

package verifsim

const raceBuild = false

func hideBegin() {}
func hideEnd()   {}
