package verifsim

import (
	"context"
	"fmt"
	"sort"
	"strings"
	"time"

	"google.golang.org/protobuf/proto"

	"github.com/smart-core-os/sc-api/go/types"
	"github.com/smart-core-os/sc-golang/pkg/resource"
)

// ---- subscribers ---------------------------------------------------------------------------------------------------

type subCfg struct {
	UpdatesOnly  bool
	Backpressure bool
	RMaskSet     bool
	RMask        []string
	PullID       string // != "" : Collection.PullID
	UsePullID    bool
	Include      *inclTable
	Include2     *inclTable // a second WithInclude option after the first (what the two mean together is the library's business)
}

func (c subCfg) String() string {
	var p []string
	if c.UsePullID {
		p = append(p, fmt.Sprintf("pullID(%q)", c.PullID))
	}
	if c.UpdatesOnly {
		p = append(p, "updatesOnly")
	}
	if c.Backpressure {
		p = append(p, "backpressure")
	} else {
		p = append(p, "lossy")
	}
	if c.RMaskSet {
		p = append(p, fmt.Sprintf("readMask%v", c.RMask))
	}
	if c.Include != nil {
		p = append(p, "include="+c.Include.String())
	}
	if c.Include2 != nil {
		p = append(p, "include="+c.Include2.String())
	}
	return strings.Join(p, ",")
}

func (c subCfg) readOpts() []resource.ReadOption {
	opts := []resource.ReadOption{resource.WithUpdatesOnly(c.UpdatesOnly), resource.WithBackpressure(c.Backpressure)}
	if c.RMaskSet {
		opts = append(opts, resource.WithReadMask(fm(c.RMask)))
	}
	if c.Include != nil {
		opts = append(opts, resource.WithInclude(c.Include.fn()))
	}
	if c.Include2 != nil {
		opts = append(opts, resource.WithInclude(c.Include2.fn())) // the option given a second time
	}
	return opts
}

// sev is a received event, for both Value and Collection streams.
type sev struct {
	ID       string
	Type     types.ChangeType
	HasOld   bool
	Old      mm
	HasNew   bool
	New      mm
	Seed     bool
	LastSeed bool
	Time     time.Time
	Step     int64 // scheduler step in which it was received
	NonFlat  bool
	// raw pointers, for the alias monitor
	RawOld, RawNew proto.Message
}

func (e sev) String() string {
	var sb strings.Builder
	if e.Seed {
		sb.WriteString("seed:")
	}
	if e.LastSeed {
		sb.WriteString("last:")
	}
	fmt.Fprintf(&sb, "%s(%q", e.Type, e.ID)
	if e.HasOld {
		sb.WriteString(" old=" + e.Old.String())
	}
	if e.HasNew {
		sb.WriteString(" new=" + e.New.String())
	}
	sb.WriteString(")")
	return sb.String()
}

type subscriber struct {
	name   string
	cfg    subCfg
	ctx    context.Context
	cancel context.CancelFunc

	opened      bool
	pullInvoked int64 // step at which Pull was invoked
	pullReturn  int64 // step at which Pull returned
	events      []sev
	closed      bool
	closedStep  int64
	stopAfter   int           // > 0: stop receiving (abandon) after this many events
	lag         time.Duration // > 0: the consumer sleeps that long (fake time) before its first receive
	lagEvery    bool          // ... and before every further one
	abandoned   bool

	vch <-chan *resource.ValueChange
	cch <-chan *resource.CollectionChange
}

func msgOf(p proto.Message) (mm, bool, bool) {
	if p == nil {
		return mm{}, false, true
	}
	m, flat := fromPB(p)
	return m, true, flat
}

func (s *subscriber) open(r *realRes) {
	if r.cfg.Coll {
		if s.cfg.UsePullID {
			s.vch = r.col.PullID(s.ctx, s.cfg.PullID, s.cfg.readOpts()...)
		} else {
			s.cch = r.col.Pull(s.ctx, s.cfg.readOpts()...)
		}
	} else {
		s.vch = r.val.Pull(s.ctx, s.cfg.readOpts()...)
	}
	s.opened = true
}

// recv receives one event (blocking). ok=false when the channel was closed.
func (s *subscriber) recv(w *World) bool {
	if s.cch != nil {
		c, ok := <-s.cch
		if !ok {
			s.closed = true
			s.closedStep = w.Step()
			return false
		}
		e := sev{ID: c.Id, Type: c.ChangeType, Seed: c.SeedValue, LastSeed: c.LastSeedValue, Time: c.ChangeTime, Step: w.Step(), RawOld: c.OldValue, RawNew: c.NewValue}
		var f1, f2 bool
		e.Old, e.HasOld, f1 = msgOf(c.OldValue)
		e.New, e.HasNew, f2 = msgOf(c.NewValue)
		e.NonFlat = !f1 || !f2
		s.events = append(s.events, e)
		return true
	}
	c, ok := <-s.vch
	if !ok {
		s.closed = true
		s.closedStep = w.Step()
		return false
	}
	e := sev{ID: s.cfg.PullID, Type: types.ChangeType_UPDATE, Seed: c.SeedValue, LastSeed: c.LastSeedValue, Time: c.ChangeTime, Step: w.Step(), RawNew: c.Value}
	var f bool
	e.New, e.HasNew, f = msgOf(c.Value)
	e.NonFlat = !f
	s.events = append(s.events, e)
	return true
}

// task body of a consumer that keeps receiving until the channel closes.
func (s *subscriber) run(t *Task, r *realRes) {
	s.pullInvoked = t.W.Step()
	s.open(r)
	s.pullReturn = t.W.Step()
	if s.lag > 0 && !s.lagEvery {
		t.Sleep(s.lag) // a slow consumer: does not come for its first event before everybody else is at rest or blocked
	}
	for {
		if s.lag > 0 && s.lagEvery {
			t.Sleep(s.lag)
		}
		if s.stopAfter > 0 && len(s.events) >= s.stopAfter {
			s.abandoned = true
			t.W.Fault("abandon")
			// stop receiving without cancelling; wait for the context to end
			t.Yield("abandon")
			<-s.ctx.Done()
			return
		}
		t.Yield("recv")
		if !s.recv(t.W) {
			return
		}
	}
}

// foldColl folds a collection stream into a view.
func foldColl(events []sev) map[string]mm {
	view := map[string]mm{}
	for _, e := range events {
		switch e.Type {
		case types.ChangeType_REMOVE:
			delete(view, e.ID)
		default:
			if e.HasNew {
				view[e.ID] = e.New
			}
		}
	}
	return view
}

func viewString(v map[string]mm) string {
	ids := make([]string, 0, len(v))
	for id := range v {
		ids = append(ids, id)
	}
	sort.Strings(ids)
	var sb strings.Builder
	for _, id := range ids {
		fmt.Fprintf(&sb, "%s=%v ", id, v[id])
	}
	return sb.String()
}

func eventsString(ev []sev) string {
	var p []string
	for _, e := range ev {
		p = append(p, e.String())
	}
	return strings.Join(p, " ")
}
