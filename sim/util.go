package verifsim

import (
	"encoding/binary"
	"fmt"
	"os"
	"sort"
)

func writeFingerprints(path string, set map[uint64]struct{}) {
	v := make([]uint64, 0, len(set))
	for k := range set {
		v = append(v, k)
	}
	sort.Slice(v, func(i, j int) bool { return v[i] < v[j] })
	b := make([]byte, 8*len(v))
	for i, x := range v {
		binary.LittleEndian.PutUint64(b[8*i:], x)
	}
	if err := os.WriteFile(path, b, 0o644); err != nil {
		fmt.Fprintln(os.Stderr, err)
		os.Exit(2)
	}
}

func mergeFingerprints(paths []string) int {
	set := map[uint64]struct{}{}
	for _, p := range paths {
		b, err := os.ReadFile(p)
		if err != nil {
			fmt.Fprintln(os.Stderr, err)
			return 2
		}
		for i := 0; i+8 <= len(b); i += 8 {
			set[binary.LittleEndian.Uint64(b[i:])] = struct{}{}
		}
	}
	fmt.Println(len(set))
	return 0
}
