package verifsim

import (
	"context"
	"errors"
	"fmt"
	"google.golang.org/protobuf/encoding/protowire"
	"io"
	"net"
	"sort"
	"strings"
	"sync/atomic"
	"time"

	"google.golang.org/grpc"
	"google.golang.org/grpc/codes"
	"google.golang.org/grpc/credentials/insecure"
	"google.golang.org/grpc/metadata"
	"google.golang.org/grpc/status"
	"google.golang.org/grpc/test/bufconn"

	"github.com/smart-core-os/sc-golang/internal/testproto"
	"github.com/smart-core-os/sc-golang/pkg/wrap"
)

// C13 — the in-process wrapper is indistinguishable from a real gRPC connection (DESIGN.md §5 C13).
//
// A joint script (rounds + one terminal) is projected onto a client program and a server program written against the
// typed testproto stubs; the very same programs run over a real grpc.Server/ClientConn pair on bufconn (free-running,
// in a bubble of its own: the reference) and over wrap.ServerToClient with client and server handler as simulator tasks.

func init() {
	register(&Scenario{Name: "wrap", Prop: "C13", Faulty: true, Doc: "tape-generated call scripts for unary / server-stream / client-stream / bidi calls (0-5 messages each way, SetHeader/SendHeader/SetTrailer at any legal position, status code at the end, half-close, client cancel or deadline after a server->client sync), executed over real gRPC on bufconn (reference) and over wrap.ServerToClient with client and handler as scheduled tasks; normalised client transcripts compared; plus copy-on-send, unknown method, wrong shape and leak checks",
		Pre: wrapPre, Run: wrapRun,
		Real: []string{"pkg/wrap ServerToClient, ClientServerStream", "internal/testproto stubs", "google.golang.org/grpc server+client over bufconn (reference transport)"}, Stub: []string{"scripted client and server programs"}})
}

const (
	rC2S = iota
	rS2C
	rHdr
	rSetHdr
	rSetTrailer
	rHalfClose
)

const (
	tReturnOK = iota
	tReturnErr
	tCancel
	tDeadline
)

type wround struct {
	kind int
	k, v string
}

type wscript struct {
	shape      int // 0 unary, 1 server stream, 2 client stream, 3 bidi
	rounds     []wround
	term       int
	code       codes.Code
	emsg       string
	ekind      int  // how the handler builds the error it returns: 0 status error, 1 status error wrapped with %w, 2 plain Go error
	mutate     bool // the sender scribbles over a message right after sending it
	ownReader  bool // bidi, server returns: the handler reads in a goroutine of its own, the client never half-closes
	unknown    bool // unary: request and response carry a field this build does not know
	prevHop    bool // the caller is itself a handler: its context carries the incoming metadata of the previous hop
	outMD      bool // the caller sends outgoing metadata
	nilOnDone  bool // cancel / deadline: the handler returns nil once its context has ended
	thirdParty bool // unary + cancel, over the wrapper: a third party cancels at any moment (the reference keeps the ordered cancel)
	mdReuse    bool // the handler keeps changing the metadata map it handed to SetHeader / SendHeader / SetTrailer
	lateCancel bool // return terminals on streams: the client cancels its context only after the call has completely ended on the server side and everything has come to rest, then reads the outcome
	preDone    bool // cancel/deadline terminals: the context is already cancelled / past its deadline when the call is made
	late       bool // cancel/deadline terminals: the handler does not watch its context, it returns only when told to after the client is done
}

func (s wscript) String() string {
	var p []string
	for _, r := range s.rounds {
		switch r.kind {
		case rC2S:
			p = append(p, "C>S")
		case rS2C:
			p = append(p, "S>C")
		case rHdr:
			p = append(p, fmt.Sprintf("hdr(%s=%s)", r.k, r.v))
		case rSetHdr:
			p = append(p, fmt.Sprintf("sethdr(%s=%s)", r.k, r.v))
		case rSetTrailer:
			p = append(p, fmt.Sprintf("settrailer(%s=%s)", r.k, r.v))
		case rHalfClose:
			p = append(p, "halfclose")
		}
	}
	term := []string{"return-ok", fmt.Sprintf("return(%s,%q,%s)", s.code, s.emsg, []string{"status", "wrapped-status", "plain-error"}[s.ekind]), "client-cancel", "deadline"}[s.term]
	return fmt.Sprintf("%s [%s] %s mutate=%v late-handler=%v md-reuse=%v pre-done=%v late-cancel=%v third-party=%v nil-on-done=%v prev-hop=%v out-md=%v unknown-fields=%v own-reader=%v", []string{"unary", "sstream", "cstream", "bidi"}[s.shape], strings.Join(p, " "), term, s.mutate, s.late, s.mdReuse, s.preDone, s.lateCancel, s.thirdParty, s.nilOnDone, s.prevHop, s.outMD, s.unknown, s.ownReader)
}

func genWrapScript(t *Tape) wscript {
	s := wscript{shape: t.Choose(4), term: t.Choose(4), mutate: t.Flag(1, 3), late: t.Flag(1, 3), mdReuse: t.Flag(1, 3), prevHop: t.Flag(1, 4), outMD: t.Flag(1, 4), unknown: t.Flag(1, 4)}
	s.code = []codes.Code{codes.NotFound, codes.InvalidArgument, codes.Internal, codes.Unavailable, codes.PermissionDenied, codes.Aborted}[t.Choose(6)]
	s.emsg = []string{"boom", "", "not here"}[t.Choose(3)]
	s.ekind = []int{0, 0, 1, 2}[t.Choose(4)]
	n := t.Choose(6)
	headerSent := false
	halfClosed := false
	md := 0
	for i := 0; i < n; i++ {
		md++
		var kinds []int
		switch s.shape {
		case 0:
			kinds = []int{rSetTrailer}
		case 1:
			kinds = []int{rS2C, rS2C, rSetTrailer}
		case 2:
			kinds = []int{rC2S, rC2S, rSetTrailer}
		case 3:
			kinds = []int{rS2C, rS2C, rSetTrailer}
			if !halfClosed {
				kinds = append(kinds, rC2S, rC2S, rHalfClose)
			}
		}
		if !headerSent {
			kinds = append(kinds, rHdr, rSetHdr) // setting headers is only legal until they have been sent
		}
		k := kinds[t.Choose(len(kinds))]
		r := wround{kind: k, k: fmt.Sprintf("x-k%d", 1+t.Choose(2)), v: fmt.Sprintf("v%d", md)}
		if k == rHdr || k == rS2C {
			headerSent = true
		}
		if k == rHalfClose {
			halfClosed = true
		}
		s.rounds = append(s.rounds, r)
	}
	if s.shape == 3 && (s.term == tReturnOK || s.term == tReturnErr) && t.Flag(1, 3) {
		own := true
		for _, r := range s.rounds {
			if r.kind == rC2S || r.kind == rHalfClose {
				own = false
			}
		}
		s.ownReader = own
	}
	// cancel / deadline need a server->client synchronisation as the last exchange, so that the server has consumed
	// everything the client sent ("the party that cancels does so after having received exactly j messages")
	if (s.term == tReturnOK || s.term == tReturnErr) && (s.shape == 1 || s.shape == 3) && t.Flag(1, 5) {
		// (not for client-streaming calls: their response is a send that only meets its receiver in CloseAndRecv, so a
		// handler that is to finish before the client looks would rely on transport buffering - outside the statement)
		s.lateCancel = !s.ownReader
	}
	if (s.term == tCancel || s.term == tDeadline) && t.Flag(1, 6) {
		// the call is made with a context that is already done: whatever the script says, the client must see the call
		// end as cancelled / past its deadline (the handler, if it runs at all, sees a done context)
		s.preDone = true
		s.late = false
		return s
	}
	if s.term == tCancel || s.term == tDeadline {
		s.nilOnDone = t.Flag(1, 3) && s.term == tCancel // (at a deadline real gRPC itself answers EOF now and then: the server side gets there too)
		if s.shape == 0 {
			// unary: the server itself triggers the client's cancel once it is waiting; nothing to add.
			// (over the wrapper, sometimes: somebody else cancels the call at a moment of the scheduler's choosing - while
			// the request is still on its way, too; only the client's outcome is specified then)
			s.thirdParty = s.term == tCancel && t.Flag(1, 2)
		} else {
			last := -1
			for i, r := range s.rounds {
				if r.kind == rC2S || r.kind == rS2C || r.kind == rHdr || r.kind == rHalfClose {
					last = i
				}
			}
			needSync := last < 0 || s.rounds[last].kind == rC2S || s.rounds[last].kind == rHalfClose
			if needSync {
				switch {
				case s.shape == 1 || s.shape == 3:
					s.rounds = append(s.rounds, wround{kind: rS2C})
				case !headerSent:
					s.rounds = append(s.rounds, wround{kind: rHdr, k: "x-sync", v: "1"})
				default:
					s.term = tReturnOK
				}
			}
		}
	}
	return s
}

// ---- transcripts -----------------------------------------------------------------------------------------------------

type transcript struct {
	client     []string // what the client observed, in program order
	server     []string // messages the server received
	hdrCompare []string // header observations that are deterministic on real gRPC (compared)
	hdrOther   []string // header/trailer observations recorded but not compared
}

func userMD(md metadata.MD) string {
	var keys []string
	for k := range md {
		if strings.HasPrefix(k, "x-") {
			keys = append(keys, k)
		}
	}
	sort.Strings(keys)
	var p []string
	for _, k := range keys {
		p = append(p, k+"="+strings.Join(md[k], ","))
	}
	return "{" + strings.Join(p, " ") + "}"
}

func errClass(err error) string {
	switch {
	case err == nil:
		return "ok"
	case err == io.EOF:
		return "EOF"
	case status.Code(err) == codes.Canceled || errors.Is(err, context.Canceled):
		return "canceled"
	case status.Code(err) == codes.DeadlineExceeded || errors.Is(err, context.DeadlineExceeded):
		return "deadline"
	}
	// what the caller can tell with status.Code / status.Convert (an error without a status counts as Unknown with its text)
	st := status.Convert(err)
	return fmt.Sprintf("status(%s,%q)", st.Code(), st.Message())
}

// ---- the scripted server ------------------------------------------------------------------------------------------------

type scriptServer struct {
	readerStarted, readerDone, returned atomic.Bool // ownReader scripts
	noSelfCancel                        bool        // the unary call is cancelled by a third party instead of by the handler
	testproto.UnimplementedTestApiServer
	s            wscript
	yield        func(op string) // scheduling point (no-op on the reference transport)
	enter        func() func()   // handler entry/exit (adopts the handler goroutine as a task)
	cancelClient func()
	release      chan struct{} // closed by the client when its program is over
	tr           *transcript
	sent         int
}

type srvStream interface {
	Context() context.Context
	SetHeader(metadata.MD) error
	SendHeader(metadata.MD) error
	SetTrailer(metadata.MD)
}

// run executes the server's half of the script. recv/send are nil where the shape does not allow them.
func (sv *scriptServer) run(st srvStream, ctx context.Context, recv func() (string, error), send func(string) error) error {
	if sv.s.prevHop || sv.s.outMD {
		// what the handler finds as its incoming metadata: what the caller sent as outgoing, nothing else
		md, _ := metadata.FromIncomingContext(ctx)
		sv.tr.server = append(sv.tr.server, "incoming "+userMD(md))
	}
	for _, r := range sv.s.rounds {
		sv.yield("srv")
		switch r.kind {
		case rC2S:
			m, err := recv()
			if err != nil {
				sv.tr.server = append(sv.tr.server, "recv-err:"+errClass(err))
			} else {
				sv.tr.server = append(sv.tr.server, m)
			}
		case rHalfClose:
			_, err := recv()
			sv.tr.server = append(sv.tr.server, "halfclose:"+errClass(err))
		case rS2C:
			sv.sent++
			if err := send(fmt.Sprintf("s%d", sv.sent)); err != nil {
				sv.tr.server = append(sv.tr.server, "send-err:"+errClass(err))
			}
		case rHdr:
			md := metadata.Pairs(r.k, r.v)
			if st != nil {
				_ = st.SendHeader(md)
			} else {
				_ = grpc.SendHeader(ctx, md)
			}
			sv.scribbleMD(md)
		case rSetHdr:
			md := metadata.Pairs(r.k, r.v)
			if st != nil {
				_ = st.SetHeader(md)
			} else {
				_ = grpc.SetHeader(ctx, md)
			}
			sv.scribbleMD(md)
		case rSetTrailer:
			md := metadata.Pairs(r.k, r.v)
			if st != nil {
				st.SetTrailer(md)
			} else {
				_ = grpc.SetTrailer(ctx, md)
			}
			sv.scribbleMD(md)
		}
	}
	sv.yield("srv-term")
	switch sv.s.term {
	case tReturnErr:
		switch sv.s.ekind {
		case 1:
			// gRPC looks through %w wrapping for the status (code kept, message = the whole text)
			return fmt.Errorf("while handling: %w", status.Error(sv.s.code, sv.s.emsg))
		case 2:
			return errors.New("plain:" + sv.s.emsg) // no status at all: Unknown with the error text
		}
		return status.Error(sv.s.code, sv.s.emsg)
	case tCancel, tDeadline:
		if sv.s.shape == 0 && sv.s.term == tCancel && !sv.s.preDone && !sv.noSelfCancel {
			sv.cancelClient() // the client "cancels while the server is working": ordered after everything before
		}
		if sv.s.late {
			<-sv.release // a handler busy with something that does not watch the context
		}
		<-ctx.Done()
		if sv.s.nilOnDone {
			return nil // a handler that simply stops when its call is over (the caller still sees why the call ended)
		}
		return status.FromContextError(ctx.Err()).Err()
	}
	return nil
}

// scribbleMD: a handler may go on using (and changing) the map it passed to the metadata calls; like a real gRPC
// connection the wrapper must have taken what it needs at the time of the call.
func (sv *scriptServer) scribbleMD(md metadata.MD) {
	if !sv.s.mdReuse {
		return
	}
	for k := range md {
		md[k] = []string{"changed-after-the-call"}
	}
	md["x-added-later"] = []string{"1"}
}

func (sv *scriptServer) Unary(ctx context.Context, req *testproto.UnaryRequest) (*testproto.UnaryResponse, error) {
	defer sv.enter()()
	sv.tr.server = append(sv.tr.server, req.Msg)
	if sv.s.unknown {
		// fields that this build of the API does not know (a newer peer): they travel with the message
		sv.tr.server = append(sv.tr.server, fmt.Sprintf("unknown-bytes=%d", len(req.ProtoReflect().GetUnknown())))
	}
	if err := sv.run(nil, ctx, nil, nil); err != nil {
		return nil, err
	}
	resp := &testproto.UnaryResponse{Msg: "unary-response"}
	if sv.s.unknown {
		resp.ProtoReflect().SetUnknown(protowire.AppendVarint(protowire.AppendTag(nil, 1001, protowire.VarintType), 9))
	}
	return resp, nil
}

func (sv *scriptServer) ServerStream(req *testproto.ServerStreamRequest, st grpc.ServerStreamingServer[testproto.ServerStreamResponse]) error {
	defer sv.enter()()
	sv.tr.server = append(sv.tr.server, fmt.Sprint("req", req.NumRes))
	return sv.run(st, st.Context(), nil, func(m string) error {
		msg := &testproto.ServerStreamResponse{Counter: int32(sv.sent)}
		err := st.Send(msg)
		if sv.s.mutate {
			msg.Counter = -999
		}
		return err
	})
}

func (sv *scriptServer) ClientStream(st grpc.ClientStreamingServer[testproto.ClientStreamRequest, testproto.ClientStreamResponse]) error {
	defer sv.enter()()
	err := sv.run(st, st.Context(), func() (string, error) {
		m, err := st.Recv()
		if err != nil {
			return "", err
		}
		return m.Msg, nil
	}, nil)
	if err != nil {
		return err
	}
	return st.SendAndClose(&testproto.ClientStreamResponse{Msg: "cs-response"})
}

func (sv *scriptServer) BidiStream(st grpc.BidiStreamingServer[testproto.BidiStreamRequest, testproto.BidiStreamResponse]) error {
	defer sv.enter()()
	if sv.s.ownReader {
		// the usual shape of a bidi handler: a goroutine of its own reads what the client sends; when the handler returns
		// that read is released (the call is over), whatever the client does or does not do afterwards
		sv.readerStarted.Store(true)
		go func() {
			for {
				if _, err := st.Recv(); err != nil {
					break
				}
			}
			sv.readerDone.Store(true)
		}()
		defer sv.returned.Store(true)
	}
	return sv.run(st, st.Context(), func() (string, error) {
		m, err := st.Recv()
		if err != nil {
			return "", err
		}
		return m.Msg, nil
	}, func(m string) error {
		msg := &testproto.BidiStreamResponse{Msg: m}
		err := st.Send(msg)
		if sv.s.mutate {
			msg.Msg = "MUTATED-AFTER-SEND"
		}
		return err
	})
}

// probe reports a handler that has returned while the reading goroutine it started is still blocked.
func (sv *scriptServer) probe() string {
	if sv.readerStarted.Load() && sv.returned.Load() && !sv.readerDone.Load() {
		return "the handler has returned, the goroutine it had reading from the stream is still blocked in Recv"
	}
	return ""
}

// ---- the scripted client ----------------------------------------------------------------------------------------------------

func runWrapClient(s wscript, client testproto.TestApiClient, yield func(string), quiesce func(), tr *transcript, setCancel func(context.CancelFunc), release chan struct{}, probe func() string) {
	defer close(release)
	base := context.Background()
	if s.prevHop {
		base = metadata.NewIncomingContext(base, metadata.Pairs("x-prev-hop", "secret"))
	}
	if s.outMD {
		base = metadata.AppendToOutgoingContext(base, "x-from-client", "c1")
	}
	ctx, cancel := context.WithCancel(base)
	defer cancel()
	if s.ownReader {
		// (runs before the deferred cancel: the call is over, the caller's context is not)
		defer func() {
			quiesce()
			if p := probe(); p != "" {
				tr.client = append(tr.client, p)
			}
		}()
	}
	if s.term == tDeadline {
		var c2 context.CancelFunc
		if s.preDone {
			ctx, c2 = context.WithDeadline(ctx, time.Now().Add(-time.Second))
		} else {
			ctx, c2 = context.WithTimeout(ctx, 3*time.Second)
		}
		defer c2()
	}
	setCancel(cancel)
	if s.preDone && s.term == tCancel {
		cancel()
	}
	obs := func(format string, a ...any) { tr.client = append(tr.client, fmt.Sprintf(format, a...)) }
	serverReturns := s.term == tReturnOK || s.term == tReturnErr
	headerSynced := false
	recordHeader := func(md metadata.MD, err error, where string) {
		line := fmt.Sprintf("header@%s %s %s", where, userMD(md), errClass(err))
		if headerSynced || serverReturns {
			tr.hdrCompare = append(tr.hdrCompare, line)
		} else {
			tr.hdrOther = append(tr.hdrOther, line)
		}
	}
	recordTrailer := func(md metadata.MD) {
		line := "trailer " + userMD(md)
		if serverReturns {
			tr.hdrCompare = append(tr.hdrCompare, line)
		} else {
			tr.hdrOther = append(tr.hdrOther, line)
		}
	}
	yield("cli")
	if s.shape == 0 {
		var h, t metadata.MD
		req := &testproto.UnaryRequest{Msg: "unary-request"}
		if s.unknown {
			req.ProtoReflect().SetUnknown(protowire.AppendVarint(protowire.AppendTag(nil, 1000, protowire.VarintType), 7))
		}
		resp, err := client.Unary(ctx, req, grpc.Header(&h), grpc.Trailer(&t))
		if s.mutate {
			req.Msg = "MUTATED-AFTER-SEND" // the call is over for the caller (however it ended): the request is the caller's again
		}
		if s.preDone {
			// only the outcome is specified for a call that starts with a done context
			obs("terminal -> %s", errClass(err))
			return
		}
		if err != nil {
			obs("unary -> %s", errClass(err))
		} else {
			obs("unary -> %q", resp.Msg)
			if s.unknown {
				obs("unknown-bytes=%d", len(resp.ProtoReflect().GetUnknown()))
			}
		}
		headerSynced = err == nil
		recordHeader(h, nil, "end")
		recordTrailer(t)
		return
	}
	var (
		send      func(string) error
		recv      func() (string, error)
		closeSend func() error
		header    func() (metadata.MD, error)
		trailer   func() metadata.MD
		finish    func() (string, error) // client-stream: CloseAndRecv
	)
	nsent := 0
	switch s.shape {
	case 1:
		st, err := client.ServerStream(ctx, &testproto.ServerStreamRequest{NumRes: 7})
		if err != nil {
			if s.preDone {
				obs("terminal -> %s", errClass(err))
			} else {
				obs("open -> %s", errClass(err))
			}
			return
		}
		recv = func() (string, error) {
			m, err := st.Recv()
			if err != nil {
				return "", err
			}
			return fmt.Sprint("counter", m.Counter), nil
		}
		header, trailer = st.Header, st.Trailer
	case 2:
		st, err := client.ClientStream(ctx)
		if err != nil {
			if s.preDone {
				obs("terminal -> %s", errClass(err))
			} else {
				obs("open -> %s", errClass(err))
			}
			return
		}
		send = func(m string) error {
			msg := &testproto.ClientStreamRequest{Msg: m}
			err := st.Send(msg)
			if s.mutate {
				msg.Msg = "MUTATED-AFTER-SEND"
			}
			return err
		}
		finish = func() (string, error) {
			r, err := st.CloseAndRecv()
			if err != nil {
				return "", err
			}
			return r.Msg, nil
		}
		header, trailer = st.Header, st.Trailer
	case 3:
		st, err := client.BidiStream(ctx)
		if err != nil {
			if s.preDone {
				obs("terminal -> %s", errClass(err))
			} else {
				obs("open -> %s", errClass(err))
			}
			return
		}
		send = func(m string) error {
			msg := &testproto.BidiStreamRequest{Msg: m}
			err := st.Send(msg)
			if s.mutate {
				msg.Msg = "MUTATED-AFTER-SEND"
			}
			return err
		}
		recv = func() (string, error) {
			m, err := st.Recv()
			if err != nil {
				return "", err
			}
			return m.Msg, nil
		}
		closeSend = st.CloseSend
		header, trailer = st.Header, st.Trailer
	}
	halfClosed := false
	if s.preDone {
		// the stream could be opened (real gRPC notices the done context asynchronously): its terminal outcome is what counts
		yield("cli-term")
		var err error
		if finish != nil {
			_, err = finish()
		} else {
			_, err = recv()
		}
		obs("terminal -> %s", errClass(err))
		return
	}
	for i, r := range s.rounds {
		switch r.kind {
		case rC2S:
			yield("cli")
			nsent++
			if err := send(fmt.Sprintf("c%d", nsent)); err != nil {
				obs("send -> %s", errClass(err))
			}
		case rS2C:
			yield("cli")
			m, err := recv()
			if err != nil {
				obs("recv -> %s", errClass(err))
			} else {
				obs("recv -> %s", m)
			}
			headerSynced = true
		case rHdr:
			yield("cli")
			md, err := header()
			headerSynced = true
			recordHeader(md, err, fmt.Sprint("round", i))
		case rHalfClose:
			yield("cli")
			if err := closeSend(); err != nil {
				obs("closesend -> %s", errClass(err))
			}
			halfClosed = true
		}
	}
	yield("cli-term")
	if s.term == tCancel {
		cancel()
	}
	if s.lateCancel {
		// the handler has long returned and its status has arrived: cancelling now must not change what the call reports
		if closeSend != nil && !halfClosed {
			_ = closeSend()
			halfClosed = true
		}
		quiesce()
		cancel()
	}
	switch {
	case finish != nil:
		m, err := finish()
		if err != nil {
			obs("closeandrecv -> %s", errClass(err))
		} else {
			obs("closeandrecv -> %q", m)
		}
	default:
		if closeSend != nil && !halfClosed && s.term != tCancel && !s.ownReader {
			_ = closeSend()
		}
		m, err := recv()
		if err != nil {
			obs("final recv -> %s", errClass(err))
		} else {
			obs("final recv -> unexpected message %s", m)
		}
	}
	md, err := header()
	recordHeader(md, err, "end")
	recordTrailer(trailer())
}

// ---- reference transport: real gRPC over bufconn, in a bubble of its own ---------------------------------------------------------

type wrapPreResult struct {
	script wscript
	ref    transcript
	ref2   transcript
}

func runReference(s wscript) transcript {
	var tr transcript
	lis := bufconn.Listen(1 << 16)
	gs := grpc.NewServer()
	var cancelClient context.CancelFunc
	sv := &scriptServer{s: s, yield: func(string) {}, enter: func() func() { return func() {} }, tr: &tr, release: make(chan struct{})}
	sv.cancelClient = func() { cancelClient() }
	testproto.RegisterTestApiServer(gs, sv)
	done := make(chan struct{})
	go func() {
		_ = gs.Serve(lis)
		close(done)
	}()
	conn, err := grpc.NewClient("passthrough:///bufnet", grpc.WithContextDialer(func(ctx context.Context, _ string) (net.Conn, error) { return lis.DialContext(ctx) }),
		grpc.WithTransportCredentials(insecure.NewCredentials()))
	if err != nil {
		tr.client = append(tr.client, "dial error: "+err.Error())
		return tr
	}
	runWrapClient(s, testproto.NewTestApiClient(conn), func(string) {}, func() { time.Sleep(time.Second) }, &tr, func(c context.CancelFunc) { cancelClient = c }, sv.release, sv.probe)
	_ = conn.Close()
	gs.Stop()
	<-done
	return tr
}

func wrapPre(t *Tape) any {
	s := genWrapScript(t)
	r := &wrapPreResult{script: s}
	r.ref = runReference(s)
	r.ref2 = runReference(s)
	return r
}

// ---- system under test: wrap.ServerToClient with client and handler as tasks ------------------------------------------------------

func wrapRun(w *World) {
	pre, _ := w.Pre.(*wrapPreResult)
	if pre == nil {
		w.Violate("harness-pre", "reference run missing", nil)
		return
	}
	s := pre.script
	w.Mix(s.String())
	w.MarkNontrivial()
	same := func(a, b transcript) bool {
		return strings.Join(a.client, "\n") == strings.Join(b.client, "\n") && strings.Join(a.server, "\n") == strings.Join(b.server, "\n") && strings.Join(a.hdrCompare, "\n") == strings.Join(b.hdrCompare, "\n")
	}
	if s.preDone {
		// only the client's view is specified here; the handler may or may not run on either transport
		pre.ref.server, pre.ref2.server = nil, nil
	}
	if !same(pre.ref, pre.ref2) {
		// the reference itself is not deterministic for this script: discard, never report
		w.Fault("reference-unstable")
		w.Note("reference unstable for %s", s)
		return
	}
	var tr transcript
	var cancelClient context.CancelFunc
	sv := &scriptServer{s: s, tr: &tr, release: make(chan struct{})}
	sv.cancelClient = func() { cancelClient() }
	var srvTask *Task
	sv.enter = func() func() {
		srvTask = w.Adopt("srv", false)
		// after the handler has returned the goroutine is back in pkg/wrap (sending the unary reply, closing the stream):
		// keep it schedulable at the hooks there, but do not wait for it
		return srvTask.Detach
	}
	sv.yield = func(op string) { srvTask.Yield(op) }
	conn := wrap.ServerToClient(testproto.TestApi_ServiceDesc, sv)
	client := testproto.NewTestApiClient(conn)
	w.Go("cli", false, func(t *Task) {
		runWrapClient(s, client, func(op string) { t.Yield(op) }, func() { t.Settle("quiesce") }, &tr, func(c context.CancelFunc) { cancelClient = c }, sv.release, sv.probe)
	})
	if s.term == tDeadline {
		w.IdleAdvance, w.IdleAdvanceN = 4*time.Second, 3
	}
	if s.thirdParty {
		sv.noSelfCancel = true
		k := w.Tape.Choose(7)
		w.Go("canceller", false, func(t *Task) {
			for i := 0; i < k || cancelClient == nil; i++ {
				t.Yield("wait")
			}
			cancelClient()
		})
		w.Fault("third-party-cancel")
	}
	w.Run()
	if w.truncated {
		return
	}
	if w.Deadlocked || len(w.Unfinished(false)) > 0 {
		w.Violate("call-stuck", fmt.Sprintf("script %s: client or handler did not finish over the wrapper: %s\n  reference client transcript: %v", s, strings.Join(w.Unfinished(true), ","), pre.ref.client),
			map[string]any{"shape": s.shape, "term": s.term})
		return
	}
	w.Note("script %s", s)
	w.Note("client %v | server %v | hdr %v | other %v", tr.client, tr.server, tr.hdrCompare, tr.hdrOther)
	key := map[string]any{"shape": []string{"unary", "sstream", "cstream", "bidi"}[s.shape], "term": []string{"return-ok", "return-err", "cancel", "deadline"}[s.term]}
	diff := func(what string, ref, got []string) bool {
		if strings.Join(ref, "\n") == strings.Join(got, "\n") {
			return false
		}
		k := map[string]any{"what": what}
		for a, b := range key {
			k[a] = b
		}
		// first differing line, for known-finding matching
		for i := 0; i < len(ref) || i < len(got); i++ {
			var r, g string
			if i < len(ref) {
				r = ref[i]
			}
			if i < len(got) {
				g = got[i]
			}
			if r != g {
				k["grpc"], k["wrap"] = firstWord(r), firstWord(g)
				break
			}
		}
		w.Violate("transcript-differs", fmt.Sprintf("script %s\n  %s over real gRPC:   %v\n  %s over the wrapper: %v", s, what, ref, what, got), k)
		return true
	}
	if s.mutate {
		for _, l := range append(append([]string{}, tr.client...), tr.server...) {
			if strings.Contains(l, "MUTATED") || strings.Contains(l, "-999") {
				w.Violate("peer-saw-mutation", fmt.Sprintf("script %s: a message changed by its sender after the send returned reached the peer changed: %s", s, l), key)
			}
		}
	}
	if s.thirdParty {
		// cancelled by somebody else at some moment: the call ends as cancelled, whatever the handler had got round to
		if len(tr.client) == 0 || tr.client[0] != "unary -> canceled" {
			k := map[string]any{"what": "third-party-cancel"}
			for a, b := range key {
				k[a] = b
			}
			w.Violate("transcript-differs", fmt.Sprintf("script %s: a unary call cancelled by a third party\n  over the wrapper: %v\n  expected: [unary -> canceled]", s, tr.client), k)
		}
	} else if s.preDone {
		w.Fault("pre-done-context")
		want := "terminal -> " + map[int]string{tCancel: "canceled", tDeadline: "deadline"}[s.term]
		if len(tr.client) != 1 || tr.client[0] != want {
			k := map[string]any{"what": "pre-done"}
			for a, b := range key {
				k[a] = b
			}
			w.Violate("transcript-differs", fmt.Sprintf("script %s: call made with a context that was already done\n  over real gRPC:   %v\n  over the wrapper: %v\n  expected: [%s]", s, pre.ref.client, tr.client, want), k)
		}
		// (the handler may or may not have been started; what it saw is not specified)
		_ = diff("client observations", pre.ref.client, tr.client)
	} else {
		_ = diff("client observations", pre.ref.client, tr.client) || diff("messages received by the server", pre.ref.server, tr.server) || diff("header/trailer metadata", pre.ref.hdrCompare, tr.hdrCompare)
	}

	// fixed expectations from the statement: unknown method and mismatched shape
	if err := conn.Invoke(context.Background(), "/sc.go.test.TestApi/Nope", &testproto.UnaryRequest{}, &testproto.UnaryResponse{}); status.Code(err) != codes.Unimplemented {
		w.Violate("unknown-method", fmt.Sprintf("Invoke of an unknown method returned %v, expected Unimplemented", err), nil)
	}
	if _, err := conn.NewStream(context.Background(), &grpc.StreamDesc{ServerStreams: true}, "/sc.go.test.TestApi/Nope"); status.Code(err) != codes.Unimplemented {
		w.Violate("unknown-method", fmt.Sprintf("NewStream of an unknown method returned %v, expected Unimplemented", err), nil)
	}
	if _, err := conn.NewStream(context.Background(), &grpc.StreamDesc{ServerStreams: true, ClientStreams: true}, testproto.TestApi_ServerStream_FullMethodName); status.Code(err) != codes.Internal {
		w.Violate("shape-mismatch", fmt.Sprintf("NewStream with a mismatched streaming shape returned %v, expected Internal", err), nil)
	}
	// ... and one more of the twelve (method, description) pairs that do not fit, chosen by the tape
	{
		type shape struct{ srv, cli bool }
		methods := []struct {
			name string
			is   shape
		}{{testproto.TestApi_Unary_FullMethodName, shape{false, false}}, {testproto.TestApi_ServerStream_FullMethodName, shape{true, false}},
			{testproto.TestApi_ClientStream_FullMethodName, shape{false, true}}, {testproto.TestApi_BidiStream_FullMethodName, shape{true, true}}}
		m := methods[w.Tape.Choose(4)]
		var wrong []shape
		for _, sh := range []shape{{false, false}, {true, false}, {false, true}, {true, true}} {
			if sh != m.is {
				wrong = append(wrong, sh)
			}
		}
		sh := wrong[w.Tape.Choose(3)]
		mctx, mcancel := context.WithCancel(context.Background())
		if _, err := conn.NewStream(mctx, &grpc.StreamDesc{ServerStreams: sh.srv, ClientStreams: sh.cli}, m.name); status.Code(err) != codes.Internal {
			w.Violate("shape-mismatch", fmt.Sprintf("NewStream of %s (server-streaming=%v client-streaming=%v) with a description saying server-streaming=%v client-streaming=%v returned %v, expected Internal", m.name, m.is.srv, m.is.cli, sh.srv, sh.cli, err), nil)
		}
		mcancel()
	}
}

func firstWord(s string) string {
	if i := strings.Index(s, " -> "); i >= 0 {
		return s[:i] + " -> " + strings.SplitN(s[i+4:], "(", 2)[0]
	}
	return s
}
