package verifsim

import (
	"fmt"
	"time"
)

// hop is one entry of a recorded history: an operation with its result and the scheduler steps of invoke and return.
type hop struct {
	Task string
	Op   wop
	Res  wres
	Inv  int64
	Ret  int64
	// clock window of the call
	T0, T1 time.Time
}

func (h hop) String() string {
	return fmt.Sprintf("[%d,%d] %s: %s -> %s", h.Inv, h.Ret, h.Task, h.Op, h.Res)
}

// opGen generates write operations for concurrent scenarios from the tape.
type opGen struct {
	tape  *Tape
	coll  bool
	ids   []string
	nextV int32
	// values other parties might plausibly expect (initial values and earlier generated ones)
	seenV   []int32
	seen    []mm
	gen     bool // allow generated ids
	include bool // allow include-filtered subscriptions
	pool    bool // strings come from a small pool (writes that differ only in V are frequent)
}

func (g *opGen) fresh() int32 {
	g.nextV++
	return g.nextV
}

func (g *opGen) pickID() string { return g.ids[g.tape.Choose(len(g.ids))] }

// writeOp returns a random write. Every successful write stores a V nobody else writes.
func (g *opGen) writeOp() wop {
	t := g.tape
	var o wop
	v := g.fresh()
	o.Val = mm{V: v}
	if t.Flag(1, 4) {
		o.Val.S = fmt.Sprintf("s%d", v)
	}
	if g.pool {
		o.Val.S = []string{"", "p", "q"}[t.Choose(3)]
	}
	if g.coll {
		switch t.Choose(6) {
		case 0, 1:
			o.Kind = opUpdate
			o.ID = g.pickID()
			o.CreateIfAbs = t.Flag(1, 2)
		case 2, 3:
			o.Kind = opAdd
			o.ID = g.pickID()
			if g.gen && t.Flag(1, 4) {
				o.ID = ""
				o.GenID = true
			}
		case 4, 5:
			o.Kind = opDelete
			o.ID = g.pickID()
			o.AllowMiss = t.Flag(1, 3)
		}
	} else {
		o.Kind = opSet
	}
	if o.Kind != opDelete {
		switch t.Choose(6) {
		case 1:
			o.HasMask, o.Mask = true, []string{fV}
		case 2:
			o.HasMask, o.Mask = true, []string{fV, fN}
		case 3:
			o.HasDelta, o.Delta = true, int64(1+t.Choose(3))
		case 4:
			o.HasDelta, o.Delta = true, int64(1+t.Choose(3))
			o.HasMask, o.Mask = true, []string{fV, fN}
		}
		if o.Kind == opUpdate || o.Kind == opSet {
			switch t.Choose(6) {
			case 1:
				if len(g.seenV) > 0 {
					o.HasCheck, o.CheckV = true, g.seenV[t.Choose(len(g.seenV))]
				}
			case 2:
				if len(g.seen) > 0 {
					o.HasExpect, o.Expect = true, g.seen[t.Choose(len(g.seen))]
				}
			}
		}
		// remember what this write would store when applied to an empty/old message, for later expectations
		g.seenV = append(g.seenV, v)
		if !o.HasDelta && !o.HasMask {
			g.seen = append(g.seen, o.Val)
		}
	} else {
		switch t.Choose(5) {
		case 1:
			if len(g.seenV) > 0 {
				o.HasCheck, o.CheckV = true, g.seenV[t.Choose(len(g.seenV))]
			}
		case 2:
			if len(g.seen) > 0 {
				o.HasExpect, o.Expect = true, g.seen[t.Choose(len(g.seen))]
			}
		}
	}
	return o
}

func (g *opGen) subCfg(allowPullID bool) subCfg {
	t := g.tape
	c := subCfg{UpdatesOnly: t.Flag(1, 3), Backpressure: t.Flag(1, 2)}
	switch t.Choose(4) {
	case 1:
		c.RMaskSet, c.RMask = true, []string{fV}
	case 2:
		c.RMaskSet, c.RMask = true, []string{fV, fS}
	}
	if g.coll && allowPullID && t.Flag(1, 4) {
		c.UsePullID, c.PullID = true, g.pickID()
	} else if g.coll && g.include && t.Flag(1, 4) {
		c.Include = &inclTable{arith: true}
	}
	return c
}

// initial contents
func (g *opGen) initial(cfg *resCfg) {
	t := g.tape
	if g.coll {
		cfg.Coll = true
		cfg.Initial = map[string]mm{}
		for _, id := range g.ids {
			if t.Flag(1, 2) {
				m := mm{V: g.fresh()}
				cfg.Initial[id] = m
				g.seenV = append(g.seenV, m.V)
				g.seen = append(g.seen, m)
			}
		}
	} else if t.Flag(2, 3) {
		cfg.HasInitial = true
		cfg.InitialVal = mm{V: g.fresh()}
		g.seenV = append(g.seenV, cfg.InitialVal.V)
		g.seen = append(g.seen, cfg.InitialVal)
	}
}

// writer is a task body that performs ops one after another and records the history (task-local).
type writer struct {
	name string
	ops  []wop
	hist []hop
}

func (wr *writer) run(t *Task, r *realRes) {
	for _, o := range wr.ops {
		t.Yield("op")
		h := hop{Task: wr.name, Op: o, Inv: t.W.Step(), T0: r.clock.Peek()}
		h.Res = r.apply(o)
		h.Ret = t.W.Step()
		h.T1 = r.clock.Peek()
		wr.hist = append(wr.hist, h)
		t.Note("%s", h)
	}
}
