package verifsim

import (
	"context"
	"fmt"
	"reflect"
	"strings"

	"google.golang.org/protobuf/proto"
	"google.golang.org/protobuf/reflect/protoreflect"
	"google.golang.org/protobuf/types/known/fieldmaskpb"
)

// C02 on every discovered server whose Update request has a `delta` flag: relative updates are read-modify-write, so
// concurrent relative updates must add up. Whether (and on which field) a server treats delta as "add to the current
// value" is found out first, with two calls one after the other; only servers that add up sequentially are then asked
// to add up concurrently.

func init() {
	register(&Scenario{Name: "lin-delta", Prop: "C02", Doc: "a tape-chosen discovered model server / memory device whose Update request has a delta flag, called directly: after two sequential +1 updates have shown that a numeric field adds up, 2-4 tasks issue 1-3 relative +1 updates each at the same time (interleaved at every window of the underlying write); the field ends at its value before plus the number of updates that reported success",
		Run: linDeltaRun,
		Info: func() any {
			triplesOnce.Do(discoverTriples)
			var c []string
			for _, tr := range triples {
				if deltaField(tr) != nil {
					c = append(c, fmt.Sprintf("%s %s/%s", tr.what, tr.entry.Desc.ServiceName, tr.x))
				}
			}
			return map[string]any{"servers_with_delta_updates": c}
		},
		Real: []string{"every discovered *pb.ModelServer / MemoryDevice whose Update request has a delta flag", "pkg/resource"}, Stub: []string{"caller tasks"}})
}

func deltaField(tr triple) protoreflect.FieldDescriptor {
	fd := tr.update.Input().Fields().ByName("delta")
	if fd == nil || fd.Kind() != protoreflect.BoolKind || fd.IsList() {
		return nil
	}
	return fd
}

func linDeltaRun(w *World) {
	triplesOnce.Do(discoverTriples)
	t := w.Tape
	var cands []triple
	for _, tr := range triples {
		if deltaField(tr) != nil {
			cands = append(cands, tr)
		}
	}
	if len(cands) == 0 {
		return
	}
	tr := cands[t.Choose(len(cands))]
	var nums []protoreflect.FieldDescriptor
	fds := tr.resource.Fields()
	for i := 0; i < fds.Len(); i++ {
		switch fd := fds.Get(i); {
		case fd.IsList() || fd.IsMap() || fd.ContainingOneof() != nil:
		case fd.Kind() == protoreflect.FloatKind, fd.Kind() == protoreflect.DoubleKind, fd.Kind() == protoreflect.Int32Kind, fd.Kind() == protoreflect.Int64Kind,
			fd.Kind() == protoreflect.Uint32Kind, fd.Kind() == protoreflect.Uint64Kind, fd.Kind() == protoreflect.Sint32Kind, fd.Kind() == protoreflect.Sint64Kind:
			nums = append(nums, fd)
		}
	}
	if len(nums) == 0 {
		return
	}
	fd := nums[t.Choose(len(nums))]
	caseName := fmt.Sprintf("%s %s/%s.%s", tr.what, tr.entry.Desc.ServiceName, tr.x, fd.Name())
	w.Mix(caseName)
	w.MarkNontrivial()
	srv := reflect.ValueOf(tr.server())
	upd, get := srv.MethodByName(string(tr.update.Name())), srv.MethodByName(string(tr.get.Name()))
	if !upd.IsValid() || !get.IsValid() {
		return
	}
	one := func() protoreflect.Value {
		switch fd.Kind() {
		case protoreflect.FloatKind:
			return protoreflect.ValueOfFloat32(1)
		case protoreflect.DoubleKind:
			return protoreflect.ValueOfFloat64(1)
		case protoreflect.Int32Kind, protoreflect.Sint32Kind:
			return protoreflect.ValueOfInt32(1)
		case protoreflect.Int64Kind, protoreflect.Sint64Kind:
			return protoreflect.ValueOfInt64(1)
		case protoreflect.Uint32Kind:
			return protoreflect.ValueOfUint32(1)
		}
		return protoreflect.ValueOfUint64(1)
	}
	num := func(m proto.Message) float64 {
		v := m.ProtoReflect().Get(fd)
		switch fd.Kind() {
		case protoreflect.FloatKind, protoreflect.DoubleKind:
			return v.Float()
		case protoreflect.Uint32Kind, protoreflect.Uint64Kind:
			return float64(v.Uint())
		}
		return float64(v.Int())
	}
	plusOne := func() error {
		req := newMsg(tr.update.Input())
		val := newMsg(tr.resource)
		val.ProtoReflect().Set(fd, one())
		req.ProtoReflect().Set(tr.updField, protoreflect.ValueOfMessage(val.ProtoReflect()))
		req.ProtoReflect().Set(deltaField(tr), protoreflect.ValueOfBool(true))
		res := upd.Call([]reflect.Value{reflect.ValueOf(context.Background()), reflect.ValueOf(req)})
		if e, ok := res[1].Interface().(error); ok && e != nil {
			return e
		}
		return nil
	}
	cur := func() (float64, bool) {
		res := get.Call([]reflect.Value{reflect.ValueOf(context.Background()), reflect.ValueOf(newMsg(tr.get.Input()))})
		m, ok := res[0].Interface().(proto.Message)
		if !ok || res[0].IsNil() {
			return 0, false
		}
		return num(m), true
	}
	// does this server add up, one call after the other?
	v0, ok0 := cur()
	e1 := plusOne()
	v1, ok1 := cur()
	e2 := plusOne()
	v2, ok2 := cur()
	if !ok0 || !ok1 || !ok2 || e1 != nil || e2 != nil || v1 != v0+1 || v2 != v0+2 {
		w.Note("%s: relative updates do not simply add to this field (%v %v -> %v %v -> %v): not judged", caseName, v0, e1, v1, e2, v2)
		return
	}
	okCalls := 0
	nt := 2 + t.Choose(3)
	for i := 0; i < nt; i++ {
		k := 1 + t.Choose(3)
		w.Go(fmt.Sprintf("c%d", i), false, func(task *Task) {
			for j := 0; j < k; j++ {
				task.Yield("op")
				if err := plusOne(); err == nil {
					okCalls++ // (tasks run one at a time)
				}
			}
		})
	}
	w.Run()
	if w.truncated {
		return
	}
	if w.Deadlocked || len(w.Unfinished(false)) > 0 {
		w.Violate("write-hangs", caseName+": a relative update did not return: "+strings.Join(w.Unfinished(true), ","), map[string]any{"server": tr.what})
		return
	}
	if v, ok := cur(); !ok || v != v2+float64(okCalls) {
		w.Violate("lost-update", fmt.Sprintf("%s: the field was %v, %d relative +1 updates reported success at the same time, and it is now %v (two such updates one after the other had added exactly 2)", caseName, v2, okCalls, v), map[string]any{"server": tr.what})
	}
}

// lin-servers: concurrent Updates on any discovered server, with generated requests (absolute values, update masks,
// relative flags). Whatever they do, an Update's response is the state it left behind, so once every call has returned
// the state is the response of the call that took effect last - one of the successful ones (or the state before, if
// none succeeded). A state that is none of them has lost or invented a write.
func init() {
	register(&Scenario{Name: "lin-servers", Prop: "C02", Doc: "a tape-chosen discovered model server / memory device with a Get/Update/Pull triple, called directly: 2-3 tasks issue 1-2 Updates each (generated messages and update masks) at the same time; once all have returned, Get is the response of one of the successful Updates (or the state before, if none succeeded)",
		Run:  linServersRun,
		Real: []string{"every discovered *pb.ModelServer / MemoryDevice with a Get/Update/Pull triple", "pkg/resource"}, Stub: []string{"caller tasks"}})
}

func linServersRun(w *World) {
	triplesOnce.Do(discoverTriples)
	t := w.Tape
	if len(triples) == 0 {
		return
	}
	tr := triples[t.Choose(len(triples))]
	caseName := fmt.Sprintf("%s %s/%s", tr.what, tr.entry.Desc.ServiceName, tr.x)
	w.Mix(caseName)
	w.MarkNontrivial()
	srv := reflect.ValueOf(tr.server())
	upd, get := srv.MethodByName(string(tr.update.Name())), srv.MethodByName(string(tr.get.Name()))
	if !upd.IsValid() || !get.IsValid() {
		return
	}
	p := &prng{s: uint64(1 + t.Choose(1<<20))}
	var topFields []string
	for i := 0; i < tr.resource.Fields().Len(); i++ {
		topFields = append(topFields, string(tr.resource.Fields().Get(i).Name()))
	}
	cur := func() proto.Message {
		res := get.Call([]reflect.Value{reflect.ValueOf(context.Background()), reflect.ValueOf(newMsg(tr.get.Input()))})
		if m, ok := res[0].Interface().(proto.Message); ok && !res[0].IsNil() {
			return proto.Clone(m)
		}
		return nil
	}
	before := cur()
	if before == nil {
		return
	}
	type call struct {
		req  proto.Message
		resp proto.Message
		err  error
	}
	var calls []*call
	nt := 2 + t.Choose(2)
	for i := 0; i < nt; i++ {
		var mine []*call
		for j, k := 0, 1+t.Choose(2); j < k; j++ {
			req := newMsg(tr.update.Input())
			val := newMsg(tr.resource)
			fillMessage(val.ProtoReflect(), p, 2)
			// (no tweens: a write that goes on over time is lin-tween's subject)
			val.ProtoReflect().Range(func(fd protoreflect.FieldDescriptor, _ protoreflect.Value) bool {
				if fd.Message() != nil && fd.Message().FullName() == "smartcore.types.Tween" {
					val.ProtoReflect().Clear(fd)
				}
				return true
			})
			req.ProtoReflect().Set(tr.updField, protoreflect.ValueOfMessage(val.ProtoReflect()))
			if f := req.ProtoReflect().Descriptor().Fields().ByName("update_mask"); f != nil && len(topFields) > 0 && t.Flag(1, 3) {
				req.ProtoReflect().Set(f, protoreflect.ValueOfMessage((&fieldmaskpb.FieldMask{Paths: []string{topFields[p.n(len(topFields))]}}).ProtoReflect()))
			}
			if f := deltaField(tr); f != nil && t.Flag(1, 3) {
				req.ProtoReflect().Set(f, protoreflect.ValueOfBool(true))
			}
			c := &call{req: req}
			mine = append(mine, c)
			calls = append(calls, c)
		}
		w.Go(fmt.Sprintf("c%d", i), false, func(task *Task) {
			for _, c := range mine {
				task.Yield("op")
				res := upd.Call([]reflect.Value{reflect.ValueOf(context.Background()), reflect.ValueOf(proto.Clone(c.req))})
				if e, ok := res[1].Interface().(error); ok && e != nil {
					c.err = e
				} else if m, ok := res[0].Interface().(proto.Message); ok && !res[0].IsNil() {
					c.resp = proto.Clone(m)
				}
			}
		})
	}
	w.Run()
	if w.truncated {
		return
	}
	if w.Deadlocked || len(w.Unfinished(false)) > 0 {
		w.Violate("write-hangs", caseName+": an Update did not return: "+strings.Join(w.Unfinished(true), ","), map[string]any{"server": tr.what})
		return
	}
	after := cur()
	if after == nil {
		return
	}
	okCalls := 0
	for _, c := range calls {
		if c.err == nil && c.resp != nil {
			okCalls++
			if proto.Equal(c.resp, after) {
				return
			}
		}
	}
	if okCalls == 0 && proto.Equal(before, after) {
		return
	}
	var rs []string
	for _, c := range calls {
		rs = append(rs, fmt.Sprintf("%v -> %v %v", c.req, c.resp, c.err))
	}
	w.Violate("lost-update", fmt.Sprintf("%s: %d Updates at the same time, %d reported success; Get now returns %v, which is the response of none of them (state before: %v)\n  %s", caseName, len(calls), okCalls, after, before, strings.Join(rs, "\n  ")), map[string]any{"server": tr.what})
}
