package verifsim

import (
	"context"
	"fmt"
	"reflect"
	"strings"

	"google.golang.org/grpc"
	"google.golang.org/grpc/codes"
	"google.golang.org/grpc/status"
	"google.golang.org/protobuf/proto"
	"google.golang.org/protobuf/reflect/protoreflect"
	"google.golang.org/protobuf/types/known/fieldmaskpb"
)

// C02 on every discovered server whose Update request has a `delta` flag: relative updates are read-modify-write, so
// concurrent relative updates must add up. Whether (and on which field) a server treats delta as "add to the current
// value" is found out first, with two calls one after the other; only servers that add up sequentially are then asked
// to add up concurrently.

func init() {
	register(&Scenario{Name: "lin-delta", Prop: "C02", Doc: "a tape-chosen discovered model server / memory device whose Update request has a delta/relative flag, called directly: after two sequential relative updates (step 1, 30 or 45) have shown that a numeric field adds up, 2-4 tasks issue 1-3 such updates each at the same time (interleaved at every window of the underlying write); the field ends where a second instance of the server, given the same updates by one caller (minus those refused as conflicts), ends, with as many successes",
		Run: linDeltaRun,
		Info: func() any {
			triplesOnce.Do(discoverTriples)
			var c []string
			for _, tr := range triples {
				if deltaField(tr) != nil {
					c = append(c, fmt.Sprintf("%s %s/%s", tr.what, tr.entry.Desc.ServiceName, tr.x))
				}
			}
			return map[string]any{"servers_with_delta_updates": c}
		},
		Real: []string{"every discovered *pb.ModelServer / MemoryDevice whose Update request has a delta flag", "pkg/resource"}, Stub: []string{"caller tasks"}})
}

func deltaField(tr triple) protoreflect.FieldDescriptor {
	for _, n := range []protoreflect.Name{"delta", "relative"} {
		if fd := tr.update.Input().Fields().ByName(n); fd != nil && fd.Kind() == protoreflect.BoolKind && !fd.IsList() {
			return fd
		}
	}
	return nil
}

// stack-relative: the same through client -> wrapper -> router -> wrapper -> server, for C14's last sentence: an
// Update that is rejected leaves Get unchanged - also when it is rejected in the middle of other clients' Updates.
func init() {
	register(&Scenario{Name: "stack-relative", Prop: "C14", Doc: "a tape-chosen discovered server whose Update request has a delta/relative flag, behind wrapper -> router -> wrapper: after two sequential relative updates (step 1, 30 or 45) have shown that a numeric field adds up, 2-4 clients issue 1-3 such updates each at the same time; Get then returns what a second instance of the server, given the same updates by one caller (minus those refused as conflicts), ends at, with as many successes - an Update that was rejected (for whatever reason, at whatever point) has changed nothing",
		Run:  func(w *World) { linDeltaRunVia(w, true) },
		Real: []string{"every discovered *pb.ModelServer / MemoryDevice whose Update request has a delta/relative flag", "generated routers and wrappers", "pkg/wrap", "pkg/router", "pkg/resource"}, Stub: []string{"client tasks"}})
}

func linDeltaRun(w *World) { linDeltaRunVia(w, false) }

func linDeltaRunVia(w *World, viaStack bool) {
	triplesOnce.Do(discoverTriples)
	t := w.Tape
	var cands []triple
	for _, tr := range triples {
		if deltaField(tr) != nil {
			cands = append(cands, tr)
		}
	}
	if len(cands) == 0 {
		return
	}
	tr := cands[t.Choose(len(cands))]
	var nums []protoreflect.FieldDescriptor
	fds := tr.resource.Fields()
	for i := 0; i < fds.Len(); i++ {
		switch fd := fds.Get(i); {
		case fd.IsList() || fd.IsMap() || fd.ContainingOneof() != nil:
		case fd.Kind() == protoreflect.FloatKind, fd.Kind() == protoreflect.DoubleKind, fd.Kind() == protoreflect.Int32Kind, fd.Kind() == protoreflect.Int64Kind,
			fd.Kind() == protoreflect.Uint32Kind, fd.Kind() == protoreflect.Uint64Kind, fd.Kind() == protoreflect.Sint32Kind, fd.Kind() == protoreflect.Sint64Kind:
			nums = append(nums, fd)
		}
	}
	if len(nums) == 0 {
		return
	}
	fd := nums[t.Choose(len(nums))]
	caseName := fmt.Sprintf("%s %s/%s.%s", tr.what, tr.entry.Desc.ServiceName, tr.x, fd.Name())
	w.Mix(caseName)
	w.MarkNontrivial()
	server := tr.server()
	srv := reflect.ValueOf(server)
	upd, get := srv.MethodByName(string(tr.update.Name())), srv.MethodByName(string(tr.get.Name()))
	if !upd.IsValid() || !get.IsValid() {
		return
	}
	const dev = "dev1"
	var conn grpc.ClientConnInterface
	if viaStack {
		inner, _ := tr.entry.Wrap(server)
		routerSrv, r := tr.entry.NewRouter()
		r.Add(dev, inner)
		_, conn = tr.entry.Wrap(routerSrv)
	}
	full := func(m protoreflect.MethodDescriptor) string {
		return "/" + tr.entry.Desc.ServiceName + "/" + string(m.Name())
	}
	// the step: mostly 1; sometimes large, so that servers that bound the field get near the bound in a few steps
	step := int64([]int{1, 1, 30, 45}[t.Choose(4)])
	one := func() protoreflect.Value {
		switch fd.Kind() {
		case protoreflect.FloatKind:
			return protoreflect.ValueOfFloat32(float32(step))
		case protoreflect.DoubleKind:
			return protoreflect.ValueOfFloat64(float64(step))
		case protoreflect.Int32Kind, protoreflect.Sint32Kind:
			return protoreflect.ValueOfInt32(int32(step))
		case protoreflect.Int64Kind, protoreflect.Sint64Kind:
			return protoreflect.ValueOfInt64(step)
		case protoreflect.Uint32Kind:
			return protoreflect.ValueOfUint32(uint32(step))
		}
		return protoreflect.ValueOfUint64(uint64(step))
	}
	num := func(m proto.Message) float64 {
		v := m.ProtoReflect().Get(fd)
		switch fd.Kind() {
		case protoreflect.FloatKind, protoreflect.DoubleKind:
			return v.Float()
		case protoreflect.Uint32Kind, protoreflect.Uint64Kind:
			return float64(v.Uint())
		}
		return float64(v.Int())
	}
	// (on the server under test, or on a reference instance of the same server that is only ever called by one caller)
	plusOneOn := func(upd reflect.Value, direct bool) error {
		req := newMsg(tr.update.Input())
		val := newMsg(tr.resource)
		val.ProtoReflect().Set(fd, one())
		req.ProtoReflect().Set(tr.updField, protoreflect.ValueOfMessage(val.ProtoReflect()))
		req.ProtoReflect().Set(deltaField(tr), protoreflect.ValueOfBool(true))
		if viaStack && !direct {
			setName(req, dev)
			return conn.Invoke(context.Background(), full(tr.update), req, newMsg(tr.update.Output()))
		}
		res := upd.Call([]reflect.Value{reflect.ValueOf(context.Background()), reflect.ValueOf(req)})
		if e, ok := res[1].Interface().(error); ok && e != nil {
			return e
		}
		return nil
	}
	curOn := func(get reflect.Value, direct bool) (float64, bool) {
		if viaStack && !direct {
			req, resp := newMsg(tr.get.Input()), newMsg(tr.get.Output())
			setName(req, dev)
			if err := conn.Invoke(context.Background(), full(tr.get), req, resp); err != nil {
				return 0, false
			}
			return num(resp), true
		}
		res := get.Call([]reflect.Value{reflect.ValueOf(context.Background()), reflect.ValueOf(newMsg(tr.get.Input()))})
		m, ok := res[0].Interface().(proto.Message)
		if !ok || res[0].IsNil() {
			return 0, false
		}
		return num(m), true
	}
	plusOne := func() error { return plusOneOn(upd, false) }
	cur := func() (float64, bool) { return curOn(get, false) }
	// does this server add up, one call after the other?
	v0, ok0 := cur()
	e1 := plusOne()
	v1, ok1 := cur()
	e2 := plusOne()
	v2, ok2 := cur()
	if !ok0 || !ok1 || !ok2 || e1 != nil || e2 != nil || v1 != v0+float64(step) || v2 != v0+2*float64(step) {
		w.Note("%s: relative updates do not simply add to this field (%v %v -> %v %v -> %v): not judged", caseName, v0, e1, v1, e2, v2)
		return
	}
	okCalls, total, aborted := 0, 0, 0
	nt := 2 + t.Choose(3)
	for i := 0; i < nt; i++ {
		k := 1 + t.Choose(3)
		total += k
		w.Go(fmt.Sprintf("c%d", i), false, func(task *Task) {
			for j := 0; j < k; j++ {
				task.Yield("op")
				switch err := plusOne(); {
				case err == nil:
					okCalls++ // (tasks run one at a time)
				case status.Code(err) == codes.Aborted:
					aborted++ // refused because another caller's write got in between: as if it had not been made
				}
			}
		})
	}
	w.Run()
	if w.truncated {
		return
	}
	if w.Deadlocked || len(w.Unfinished(false)) > 0 {
		w.Violate("write-hangs", caseName+": a relative update did not return: "+strings.Join(w.Unfinished(true), ","), map[string]any{"server": tr.what})
		return
	}
	// The reference: a second instance of the same server, called by one caller only, is given the same updates - the two
	// probes and then one per call that was not refused as a conflict. The calls are all alike, so whatever order the
	// concurrent ones took effect in, they must have come to the same: as many successes, and the same value (servers
	// that cap a field cap it in the reference too; a call that is rejected changes nothing in either).
	ref := reflect.ValueOf(tr.server())
	rupd, rget := ref.MethodByName(string(tr.update.Name())), ref.MethodByName(string(tr.get.Name()))
	okRef := 0
	for i := 0; i < 2+total-aborted; i++ {
		if err := plusOneOn(rupd, true); err == nil && i >= 2 {
			okRef++
		}
	}
	vRef, okR := curOn(rget, true)
	if v, ok := cur(); !ok || !okR || v != vRef || okCalls != okRef {
		class := "lost-update"
		if viaStack {
			class = "relative-update"
		}
		w.Violate(class, fmt.Sprintf("%s: the field was %v; of %d relative +%d updates issued at the same time %d reported success and %d were refused as conflicts, and it is now %v; the same server given those %d updates by one caller, one after the other, accepts %d and ends at %v", caseName, v2, total, step, okCalls, aborted, v, total-aborted, okRef, vRef), map[string]any{"server": tr.what})
	}
}

// lin-servers: concurrent Updates on any discovered server, with generated requests (absolute values, update masks,
// relative flags). Whatever they do, an Update's response is the state it left behind, so once every call has returned
// the state is the response of the call that took effect last - one of the successful ones (or the state before, if
// none succeeded). A state that is none of them has lost or invented a write.
func init() {
	register(&Scenario{Name: "lin-servers", Prop: "C02", Doc: "a tape-chosen discovered model server / memory device with a Get/Update/Pull triple, called directly: 2-3 tasks issue 1-2 Updates each (generated messages and update masks) at the same time; once all have returned, Get is the response of one of the successful Updates (or the state before, if none succeeded)",
		Run:  linServersRun,
		Real: []string{"every discovered *pb.ModelServer / MemoryDevice with a Get/Update/Pull triple", "pkg/resource"}, Stub: []string{"caller tasks"}})
}

// stack-serial: the same through client -> wrapper -> router -> wrapper -> server, for C14: what the clients are told and
// what Get returns afterwards is what the successful Updates, one after the other in some order, make of a server of
// that kind - a rejected Update has contributed nothing.
func init() {
	register(&Scenario{Name: "stack-serial", Prop: "C14", Doc: "a tape-chosen discovered server behind wrapper -> router -> wrapper: 2-3 clients issue 1-2 generated Updates each (messages, update masks, relative flags) at the same time; Get afterwards returns what a second instance of the server returns after the successful Updates alone, applied one after the other in some order (all orders tried; at most 4 successful Updates)",
		Run:  func(w *World) { linServersRunVia(w, true) },
		Real: []string{"every discovered *pb.ModelServer / MemoryDevice with a Get/Update/Pull triple", "generated routers and wrappers", "pkg/wrap", "pkg/router", "pkg/resource"}, Stub: []string{"client tasks"}})
}

func linServersRun(w *World) { linServersRunVia(w, false) }

func linServersRunVia(w *World, viaStack bool) {
	triplesOnce.Do(discoverTriples)
	t := w.Tape
	if len(triples) == 0 {
		return
	}
	tr := triples[t.Choose(len(triples))]
	caseName := fmt.Sprintf("%s %s/%s", tr.what, tr.entry.Desc.ServiceName, tr.x)
	w.Mix(caseName)
	w.MarkNontrivial()
	server, knownIDs := provision(tr.server())
	srv := reflect.ValueOf(server)
	upd, get := srv.MethodByName(string(tr.update.Name())), srv.MethodByName(string(tr.get.Name()))
	if !upd.IsValid() || !get.IsValid() {
		return
	}
	const dev = "dev1"
	var conn grpc.ClientConnInterface
	if viaStack {
		inner, _ := tr.entry.Wrap(server)
		routerSrv, r := tr.entry.NewRouter()
		r.Add(dev, inner)
		_, conn = tr.entry.Wrap(routerSrv)
	}
	full := func(m protoreflect.MethodDescriptor) string {
		return "/" + tr.entry.Desc.ServiceName + "/" + string(m.Name())
	}
	p := &prng{s: uint64(1 + t.Choose(1<<20))}
	var topFields []string
	for i := 0; i < tr.resource.Fields().Len(); i++ {
		topFields = append(topFields, string(tr.resource.Fields().Get(i).Name()))
	}
	curOn := func(get reflect.Value, direct bool) proto.Message {
		if viaStack && !direct {
			req, resp := newMsg(tr.get.Input()), newMsg(tr.get.Output())
			setName(req, dev)
			if err := conn.Invoke(context.Background(), full(tr.get), req, resp); err != nil {
				return nil
			}
			return resp
		}
		res := get.Call([]reflect.Value{reflect.ValueOf(context.Background()), reflect.ValueOf(newMsg(tr.get.Input()))})
		if m, ok := res[0].Interface().(proto.Message); ok && !res[0].IsNil() {
			return proto.Clone(m)
		}
		return nil
	}
	cur := func() proto.Message { return curOn(get, false) }
	before := cur()
	if before == nil {
		return
	}
	type call struct {
		req  proto.Message
		resp proto.Message
		err  error
	}
	var calls []*call
	nt := 2 + t.Choose(2)
	for i := 0; i < nt; i++ {
		var mine []*call
		for j, k := 0, 1+t.Choose(2); j < k; j++ {
			req := newMsg(tr.update.Input())
			val := newMsg(tr.resource)
			fillMessage(val.ProtoReflect(), p, 2)
			knownID(val, knownIDs, p)
			// (no tweens: a write that goes on over time is lin-tween's subject)
			val.ProtoReflect().Range(func(fd protoreflect.FieldDescriptor, _ protoreflect.Value) bool {
				if fd.Message() != nil && fd.Message().FullName() == "smartcore.types.Tween" {
					val.ProtoReflect().Clear(fd)
				}
				return true
			})
			req.ProtoReflect().Set(tr.updField, protoreflect.ValueOfMessage(val.ProtoReflect()))
			if f := req.ProtoReflect().Descriptor().Fields().ByName("update_mask"); f != nil && len(topFields) > 0 && t.Flag(1, 3) {
				req.ProtoReflect().Set(f, protoreflect.ValueOfMessage((&fieldmaskpb.FieldMask{Paths: []string{topFields[p.n(len(topFields))]}}).ProtoReflect()))
			}
			if f := deltaField(tr); f != nil && t.Flag(1, 3) {
				req.ProtoReflect().Set(f, protoreflect.ValueOfBool(true))
			}
			c := &call{req: req}
			mine = append(mine, c)
			calls = append(calls, c)
		}
		w.Go(fmt.Sprintf("c%d", i), false, func(task *Task) {
			for _, c := range mine {
				task.Yield("op")
				if viaStack {
					req, resp := proto.Clone(c.req), newMsg(tr.update.Output())
					setName(req, dev)
					if err := conn.Invoke(context.Background(), full(tr.update), req, resp); err != nil {
						c.err = err
					} else {
						c.resp = resp
					}
					continue
				}
				res := upd.Call([]reflect.Value{reflect.ValueOf(context.Background()), reflect.ValueOf(proto.Clone(c.req))})
				if e, ok := res[1].Interface().(error); ok && e != nil {
					c.err = e
				} else if m, ok := res[0].Interface().(proto.Message); ok && !res[0].IsNil() {
					c.resp = proto.Clone(m)
				}
			}
		})
	}
	w.Run()
	if w.truncated {
		return
	}
	if w.Deadlocked || len(w.Unfinished(false)) > 0 {
		w.Violate("write-hangs", caseName+": an Update did not return: "+strings.Join(w.Unfinished(true), ","), map[string]any{"server": tr.what})
		return
	}
	after := cur()
	if after == nil {
		return
	}
	okCalls := 0
	explained := false
	var good []*call
	for _, c := range calls {
		if c.err == nil && c.resp != nil {
			okCalls++
			good = append(good, c)
			if proto.Equal(c.resp, after) {
				explained = true
			}
		}
	}
	if okCalls == 0 && proto.Equal(before, after) {
		explained = true
	}
	if explained {
		// The state is the response of one of the successful calls. Is it also what those calls alone make of the server,
		// in some order? (A call that was refused must not have contributed; a second instance of the server - never
		// called by two callers at once - is given the successful requests one after the other, in every order.)
		if len(good) == 0 || len(good) > 4 {
			return
		}
		var tried []string
		perm := make([]int, len(good))
		for i := range perm {
			perm[i] = i
		}
		var rec func(k int) bool
		rec = func(k int) bool {
			if k == len(perm) {
				rsrvAny, _ := provision(tr.server())
				rsrv := reflect.ValueOf(rsrvAny)
				rupd, rget := rsrv.MethodByName(string(tr.update.Name())), rsrv.MethodByName(string(tr.get.Name()))
				for _, i := range perm {
					_ = rupd.Call([]reflect.Value{reflect.ValueOf(context.Background()), reflect.ValueOf(proto.Clone(good[i].req))})
				}
				ref := curOn(rget, true)
				// (time stamps are readings of the clock at the moment of the call: not compared)
				if ref != nil && !significantlyDifferent(stripTimes(ref).ProtoReflect(), stripTimes(after).ProtoReflect(), 2) {
					return true
				}
				tried = append(tried, fmt.Sprintf("order %v -> %v", perm, ref))
				return false
			}
			for i := k; i < len(perm); i++ {
				perm[k], perm[i] = perm[i], perm[k]
				if rec(k + 1) {
					return true
				}
				perm[k], perm[i] = perm[i], perm[k]
			}
			return false
		}
		if rec(0) {
			return
		}
		var rs []string
		for _, c := range calls {
			rs = append(rs, fmt.Sprintf("%v -> %v %v", c.req, c.resp, c.err))
		}
		class := "lost-update"
		if viaStack {
			class = "serial-reference"
		}
		w.Violate(class, fmt.Sprintf("%s: %d Updates at the same time, %d reported success; Get now returns %v, which is not what the successful ones alone make of a server of this kind in any order (state before: %v)\n  %s\n  %s", caseName, len(calls), okCalls, after, before, strings.Join(rs, "\n  "), strings.Join(tried, "\n  ")), map[string]any{"server": tr.what, "oracle": "serial"})
		return
	}
	var rs []string
	for _, c := range calls {
		rs = append(rs, fmt.Sprintf("%v -> %v %v", c.req, c.resp, c.err))
	}
	w.Violate("lost-update", fmt.Sprintf("%s: %d Updates at the same time, %d reported success; Get now returns %v, which is the response of none of them (state before: %v)\n  %s", caseName, len(calls), okCalls, after, before, strings.Join(rs, "\n  ")), map[string]any{"server": tr.what})
}

// stripTimes returns a copy of m without its google.protobuf.Timestamp fields (at any depth).
func stripTimes(m proto.Message) proto.Message {
	c := proto.Clone(m)
	var walk func(pm protoreflect.Message)
	walk = func(pm protoreflect.Message) {
		pm.Range(func(fd protoreflect.FieldDescriptor, v protoreflect.Value) bool {
			if fd.Message() == nil {
				return true
			}
			if fd.Message().FullName() == "google.protobuf.Timestamp" && !fd.IsList() && !fd.IsMap() {
				pm.Clear(fd)
				return true
			}
			switch {
			case fd.IsList():
				l := v.List()
				for i := 0; i < l.Len(); i++ {
					walk(l.Get(i).Message())
				}
			case fd.IsMap():
				if fd.MapValue().Message() != nil {
					v.Map().Range(func(_ protoreflect.MapKey, mv protoreflect.Value) bool { walk(mv.Message()); return true })
				}
			default:
				walk(v.Message())
			}
			return true
		})
	}
	walk(c.ProtoReflect())
	return c
}
