package verifsim

import (
	"context"
	"fmt"
	"reflect"
	"strings"

	"google.golang.org/protobuf/proto"
	"google.golang.org/protobuf/reflect/protoreflect"
)

// C02 on every discovered server whose Update request has a `delta` flag: relative updates are read-modify-write, so
// concurrent relative updates must add up. Whether (and on which field) a server treats delta as "add to the current
// value" is found out first, with two calls one after the other; only servers that add up sequentially are then asked
// to add up concurrently.

func init() {
	register(&Scenario{Name: "lin-delta", Prop: "C02", Doc: "a tape-chosen discovered model server / memory device whose Update request has a delta flag, called directly: after two sequential +1 updates have shown that a numeric field adds up, 2-4 tasks issue 1-3 relative +1 updates each at the same time (interleaved at every window of the underlying write); the field ends at its value before plus the number of updates that reported success",
		Run: linDeltaRun,
		Info: func() any {
			triplesOnce.Do(discoverTriples)
			var c []string
			for _, tr := range triples {
				if deltaField(tr) != nil {
					c = append(c, fmt.Sprintf("%s %s/%s", tr.what, tr.entry.Desc.ServiceName, tr.x))
				}
			}
			return map[string]any{"servers_with_delta_updates": c}
		},
		Real: []string{"every discovered *pb.ModelServer / MemoryDevice whose Update request has a delta flag", "pkg/resource"}, Stub: []string{"caller tasks"}})
}

func deltaField(tr triple) protoreflect.FieldDescriptor {
	fd := tr.update.Input().Fields().ByName("delta")
	if fd == nil || fd.Kind() != protoreflect.BoolKind || fd.IsList() {
		return nil
	}
	return fd
}

func linDeltaRun(w *World) {
	triplesOnce.Do(discoverTriples)
	t := w.Tape
	var cands []triple
	for _, tr := range triples {
		if deltaField(tr) != nil {
			cands = append(cands, tr)
		}
	}
	if len(cands) == 0 {
		return
	}
	tr := cands[t.Choose(len(cands))]
	var nums []protoreflect.FieldDescriptor
	fds := tr.resource.Fields()
	for i := 0; i < fds.Len(); i++ {
		switch fd := fds.Get(i); {
		case fd.IsList() || fd.IsMap() || fd.ContainingOneof() != nil:
		case fd.Kind() == protoreflect.FloatKind, fd.Kind() == protoreflect.DoubleKind, fd.Kind() == protoreflect.Int32Kind, fd.Kind() == protoreflect.Int64Kind,
			fd.Kind() == protoreflect.Uint32Kind, fd.Kind() == protoreflect.Uint64Kind, fd.Kind() == protoreflect.Sint32Kind, fd.Kind() == protoreflect.Sint64Kind:
			nums = append(nums, fd)
		}
	}
	if len(nums) == 0 {
		return
	}
	fd := nums[t.Choose(len(nums))]
	caseName := fmt.Sprintf("%s %s/%s.%s", tr.what, tr.entry.Desc.ServiceName, tr.x, fd.Name())
	w.Mix(caseName)
	w.MarkNontrivial()
	srv := reflect.ValueOf(tr.server())
	upd, get := srv.MethodByName(string(tr.update.Name())), srv.MethodByName(string(tr.get.Name()))
	if !upd.IsValid() || !get.IsValid() {
		return
	}
	one := func() protoreflect.Value {
		switch fd.Kind() {
		case protoreflect.FloatKind:
			return protoreflect.ValueOfFloat32(1)
		case protoreflect.DoubleKind:
			return protoreflect.ValueOfFloat64(1)
		case protoreflect.Int32Kind, protoreflect.Sint32Kind:
			return protoreflect.ValueOfInt32(1)
		case protoreflect.Int64Kind, protoreflect.Sint64Kind:
			return protoreflect.ValueOfInt64(1)
		case protoreflect.Uint32Kind:
			return protoreflect.ValueOfUint32(1)
		}
		return protoreflect.ValueOfUint64(1)
	}
	num := func(m proto.Message) float64 {
		v := m.ProtoReflect().Get(fd)
		switch fd.Kind() {
		case protoreflect.FloatKind, protoreflect.DoubleKind:
			return v.Float()
		case protoreflect.Uint32Kind, protoreflect.Uint64Kind:
			return float64(v.Uint())
		}
		return float64(v.Int())
	}
	plusOne := func() error {
		req := newMsg(tr.update.Input())
		val := newMsg(tr.resource)
		val.ProtoReflect().Set(fd, one())
		req.ProtoReflect().Set(tr.updField, protoreflect.ValueOfMessage(val.ProtoReflect()))
		req.ProtoReflect().Set(deltaField(tr), protoreflect.ValueOfBool(true))
		res := upd.Call([]reflect.Value{reflect.ValueOf(context.Background()), reflect.ValueOf(req)})
		if e, ok := res[1].Interface().(error); ok && e != nil {
			return e
		}
		return nil
	}
	cur := func() (float64, bool) {
		res := get.Call([]reflect.Value{reflect.ValueOf(context.Background()), reflect.ValueOf(newMsg(tr.get.Input()))})
		m, ok := res[0].Interface().(proto.Message)
		if !ok || res[0].IsNil() {
			return 0, false
		}
		return num(m), true
	}
	// does this server add up, one call after the other?
	v0, ok0 := cur()
	e1 := plusOne()
	v1, ok1 := cur()
	e2 := plusOne()
	v2, ok2 := cur()
	if !ok0 || !ok1 || !ok2 || e1 != nil || e2 != nil || v1 != v0+1 || v2 != v0+2 {
		w.Note("%s: relative updates do not simply add to this field (%v %v -> %v %v -> %v): not judged", caseName, v0, e1, v1, e2, v2)
		return
	}
	okCalls := 0
	nt := 2 + t.Choose(3)
	for i := 0; i < nt; i++ {
		k := 1 + t.Choose(3)
		w.Go(fmt.Sprintf("c%d", i), false, func(task *Task) {
			for j := 0; j < k; j++ {
				task.Yield("op")
				if err := plusOne(); err == nil {
					okCalls++ // (tasks run one at a time)
				}
			}
		})
	}
	w.Run()
	if w.truncated {
		return
	}
	if w.Deadlocked || len(w.Unfinished(false)) > 0 {
		w.Violate("write-hangs", caseName+": a relative update did not return: "+strings.Join(w.Unfinished(true), ","), map[string]any{"server": tr.what})
		return
	}
	if v, ok := cur(); !ok || v != v2+float64(okCalls) {
		w.Violate("lost-update", fmt.Sprintf("%s: the field was %v, %d relative +1 updates reported success at the same time, and it is now %v (two such updates one after the other had added exactly 2)", caseName, v2, okCalls, v), map[string]any{"server": tr.what})
	}
}
