package verifsim

import (
	"fmt"
	"strings"
	"time"

	"google.golang.org/grpc/codes"
	"google.golang.org/grpc/status"
	"google.golang.org/protobuf/types/known/timestamppb"

	"github.com/smart-core-os/sc-api/go/traits"
	"github.com/smart-core-os/sc-golang/pkg/trait/hailpb"
)

// C02 on a model that deletes on its own: the hail model's keep-alive collector removes hails whose arrive time lies
// more than the keep-alive back, with a precondition that the hail is still the version it saw. A hail that a caller
// refreshes (successfully) at the same moment must survive: a Delete never removes a version its precondition did not see.

func init() {
	register(&Scenario{Name: "lin-hail", Prop: "C02", Doc: "hailpb model with 1-3 expired hails: one task creates a hail (which runs the keep-alive collector), 1-2 tasks refresh the arrive time of expired hails at the same time; a refresh that reports success is never lost: the hail is still there afterwards, with the refreshed time",
		Run:  linHailRun,
		Real: []string{"pkg/trait/hailpb Model (gc with expected-value deletes)", "pkg/resource Collection"}, Stub: []string{"caller tasks", "fake clock"}})
}

func linHailRun(w *World) {
	t := w.Tape
	w.MarkNontrivial()
	m := hailpb.NewModel()
	n := 1 + t.Choose(3)
	var ids []string
	for i := 0; i < n; i++ {
		h, err := m.CreateHail(&traits.Hail{})
		if err != nil {
			w.Violate("harness-hail", "CreateHail: "+err.Error(), nil)
			return
		}
		ids = append(ids, h.Id)
	}
	old := time.Now().Add(-time.Hour)
	for _, id := range ids {
		if _, err := m.UpdateHail(&traits.Hail{Id: id, ArriveTime: timestamppb.New(old)}); err != nil {
			w.Violate("harness-hail", "UpdateHail: "+err.Error(), nil)
			return
		}
	}
	w.Advance(31 * time.Second) // the collector may run again
	type refresh struct {
		id   string
		idx  int
		at   time.Time
		code codes.Code
	}
	var refreshes []*refresh
	w.Go("creator", false, func(task *Task) {
		task.Yield("op")
		_, _ = m.CreateHail(&traits.Hail{})
	})
	for i, k := 0, 1+t.Choose(2); i < k; i++ {
		r := &refresh{idx: t.Choose(len(ids)), at: time.Now().Add(time.Duration(1+i) * time.Minute)}
		r.id = ids[r.idx]
		refreshes = append(refreshes, r)
		w.Go(fmt.Sprintf("refresher%d", i), false, func(task *Task) {
			task.Yield("op")
			_, err := m.UpdateHail(&traits.Hail{Id: r.id, ArriveTime: timestamppb.New(r.at)})
			r.code = status.Code(err)
			task.Note("refresh hail #%d -> %s", r.idx, r.code)
		})
	}
	w.Run()
	if w.truncated {
		return
	}
	if w.Deadlocked || len(w.Unfinished(false)) > 0 {
		w.Violate("write-hangs", "a hail call did not return: "+strings.Join(w.Unfinished(true), ","), nil)
		return
	}
	// per hail: the last successful refresh decides (two refreshers of one hail: either may be last)
	byID := map[string][]*refresh{}
	for _, r := range refreshes {
		if r.code == codes.OK {
			byID[r.id] = append(byID[r.id], r)
		}
	}
	for id, rs := range byID {
		h, ok := m.GetHail(id)
		if !ok {
			w.Violate("lost-update", fmt.Sprintf("hail #%d was refreshed successfully (arrive time moved to the future) while the keep-alive collector ran, and is gone: the collector deleted a version it had not seen", rs[0].idx), nil)
			return
		}
		match := false
		for _, r := range rs {
			if h.ArriveTime.AsTime().Equal(r.at) {
				match = true
			}
		}
		if !match {
			w.Violate("lost-update", fmt.Sprintf("hail #%d: successful refreshes %d, stored arrive time %v matches none", rs[0].idx, len(rs), h.ArriveTime.AsTime()), nil)
			return
		}
	}
}
