package verifsim

import (
	"context"
	"fmt"
	"strings"

	"google.golang.org/grpc"
	"google.golang.org/grpc/codes"
	"google.golang.org/grpc/status"

	"github.com/smart-core-os/sc-api/go/traits"
	"github.com/smart-core-os/sc-golang/pkg/group"
	"github.com/smart-core-os/sc-golang/pkg/trait/lightpb"
	"github.com/smart-core-os/sc-golang/pkg/trait/onoffpb"
)

// C17 through the trait groups' unary calls (onoffpb.Group / lightpb.Group Get and Update build their members and hand
// them to group.Execute): "the error returned is the first one observed" also when the caller goes away later. One
// member fails at once with NotFound; the others only give up when their context ends. The caller's context is
// cancelled only once the system has come to rest - by then the group has seen the failure and is waiting for the
// others - so whichever strategy decides, and whenever, the error the call reports is that NotFound.

func init() {
	register(&Scenario{Name: "group-unary", Prop: "C17", Faulty: true, Doc: "onoffpb.Group / lightpb.Group Get and Update over a stub client: one member fails at once (NotFound), 1-2 members give up only when their context ends; strategies All/Most/Any/Fast/Race; the caller's context is cancelled once the system is at rest (the failure has been observed): the call returns, with the NotFound that was observed first",
		Run:  groupUnaryRun,
		Real: []string{"pkg/trait/onoffpb Group, lightpb Group (GetOnOff/UpdateOnOff/GetBrightness/UpdateBrightness)", "pkg/group"}, Stub: []string{"member clients", "caller and canceller tasks"}})
}

type guClient struct {
	traits.OnOffApiClient
	w *World
}

func guMember(ctx context.Context, name string) error {
	if name == "broken" {
		return status.Error(codes.NotFound, "no such device: broken")
	}
	if strings.HasPrefix(name, "ok") {
		return nil
	}
	<-ctx.Done()
	return status.Error(codes.Unavailable, name+" gave up")
}

func (c guClient) GetOnOff(ctx context.Context, in *traits.GetOnOffRequest, _ ...grpc.CallOption) (*traits.OnOff, error) {
	if err := guMember(ctx, in.Name); err != nil {
		return nil, err
	}
	return &traits.OnOff{State: traits.OnOff_ON}, nil
}
func (c guClient) UpdateOnOff(ctx context.Context, in *traits.UpdateOnOffRequest, _ ...grpc.CallOption) (*traits.OnOff, error) {
	if err := guMember(ctx, in.Name); err != nil {
		return nil, err
	}
	return &traits.OnOff{State: traits.OnOff_ON}, nil
}

type guLight struct {
	traits.LightApiClient
}

func (c guLight) GetBrightness(ctx context.Context, in *traits.GetBrightnessRequest, _ ...grpc.CallOption) (*traits.Brightness, error) {
	if err := guMember(ctx, in.Name); err != nil {
		return nil, err
	}
	return &traits.Brightness{LevelPercent: 40}, nil
}
func (c guLight) UpdateBrightness(ctx context.Context, in *traits.UpdateBrightnessRequest, _ ...grpc.CallOption) (*traits.Brightness, error) {
	if err := guMember(ctx, in.Name); err != nil {
		return nil, err
	}
	return &traits.Brightness{LevelPercent: 40}, nil
}

func groupUnaryRun(w *World) {
	t := w.Tape
	light, update := t.Flag(1, 2), t.Flag(1, 2)
	strats := []group.ExecutionStrategy{group.ExecutionStrategyAll, group.ExecutionStrategyMost, group.ExecutionStrategyAny, group.ExecutionStrategyFast, group.ExecutionStrategyRace}
	snames := []string{"All", "Most", "Any", "Fast", "Race"}
	si := t.Choose(len(strats))
	names := []string{"slow1", "broken", "slow2"}
	switch t.Choose(3) {
	case 0:
		names = []string{"broken", "slow1"}
	case 1:
		names = []string{"slow1", "slow2", "broken"}
	}
	// in one run of three the other members answer at once instead: a failed member among successful ones - whether
	// that fails the call is the strategy's business, what the call makes of the answers it has is the group's
	tolerant := t.Flag(1, 3)
	if tolerant {
		names = [][]string{{"ok1", "broken", "ok2"}, {"broken", "ok1", "ok2"}, {"ok1", "ok2", "broken"}, {"ok1", "broken"}}[t.Choose(4)]
	}
	w.MarkNontrivial()
	w.Mix(fmt.Sprint(light, update, snames[si], names))
	ctx, cancel := context.WithCancel(context.Background())
	defer cancel()
	var call func() error
	if light {
		g := lightpb.NewGroup(guLight{}, names...)
		g.ReadExecution, g.WriteExecution = strats[si], strats[si]
		if update {
			call = func() error {
				_, err := g.UpdateBrightness(ctx, &traits.UpdateBrightnessRequest{Name: "all", Brightness: &traits.Brightness{LevelPercent: 40}})
				return err
			}
		} else {
			call = func() error { _, err := g.GetBrightness(ctx, &traits.GetBrightnessRequest{Name: "all"}); return err }
		}
	} else {
		g := onoffpb.NewGroup(guClient{w: w}, names...)
		g.ReadExecution, g.WriteExecution = strats[si], strats[si]
		if update {
			call = func() error {
				_, err := g.UpdateOnOff(ctx, &traits.UpdateOnOffRequest{Name: "all", OnOff: &traits.OnOff{State: traits.OnOff_ON}})
				return err
			}
		} else {
			call = func() error { _, err := g.GetOnOff(ctx, &traits.GetOnOffRequest{Name: "all"}); return err }
		}
	}
	var err error
	returned := false
	w.Go("caller", false, func(task *Task) {
		err = call()
		returned = true
	})
	if tolerant {
		w.Run()
		if w.truncated {
			return
		}
		desc := fmt.Sprintf("%s group, update=%v, strategy %s, members %v", map[bool]string{true: "lightpb", false: "onoffpb"}[light], update, snames[si], names)
		key := map[string]any{"strategy": snames[si], "unary": true, "tolerant": true}
		if !returned {
			// (a panic on the caller's goroutine is reported by the kernel as such)
			for _, tk := range w.taskList() {
				if tk.Name == "caller" && tk.panicked {
					return
				}
			}
			w.Violate("caller-stuck", desc+": every member answered at once but the call did not return: "+strings.Join(w.Unfinished(true), ","), key)
			return
		}
		// Any: one success is enough; Most: at most half may fail (1 of 3 is fine, 1 of 2 is fine: not more than half);
		// Fast: the first success; All: the failure fails the call
		switch snames[si] {
		case "Any", "Most", "Fast":
			if err != nil {
				w.Violate("wrong-error", fmt.Sprintf("%s: one member failed and the others succeeded: the strategy tolerates that, but the call reported %v", desc, err), key)
			}
		case "All":
			if status.Code(err) != codes.NotFound {
				w.Violate("wrong-error", fmt.Sprintf("%s: a member failed with NotFound: the call reported %v", desc, err), key)
			}
		}
		return
	}
	w.Go("canceller", false, func(task *Task) {
		task.Settle("at-rest") // every member has run as far as it can: the failure has been delivered and looked at
		w.Fault("cancel")
		cancel()
	})
	w.Run()
	if w.truncated {
		return
	}
	desc := fmt.Sprintf("%s group, update=%v, strategy %s, members %v", map[bool]string{true: "lightpb", false: "onoffpb"}[light], update, snames[si], names)
	key := map[string]any{"strategy": snames[si], "unary": true}
	if !returned {
		w.Violate("caller-stuck", desc+": the call did not return although the caller's context was cancelled: "+strings.Join(w.Unfinished(true), ","), key)
		return
	}
	if status.Code(err) != codes.NotFound {
		w.Violate("wrong-error", fmt.Sprintf("%s: one member failed at once with NotFound, the others only after the caller had gone away (which was after the failure had been observed): the call reported %v, not the error observed first", desc, err), key)
	}
}
