package verifsim

import (
	"context"
	"fmt"
	"strings"

	"google.golang.org/grpc/codes"
	"google.golang.org/grpc/status"

	"github.com/smart-core-os/sc-api/go/traits"
	"github.com/smart-core-os/sc-golang/pkg/trait/countpb"
	"github.com/smart-core-os/sc-golang/pkg/trait/enterleavesensorpb"
)

// C02 on a trait that is all read-modify-write: countpb's delta updates. Concurrent callers add to the same counters; a
// call either reports a lost race and changes nothing, or its delta is counted exactly once.

func init() {
	register(&Scenario{Name: "lin-count", Prop: "C02", Doc: "(in a third of the runs the same on the enter/leave model: concurrent ENTER / LEAVE events, totals = successes) 2-4 callers issue 1-3 UpdateCount(delta) each on one countpb device (directly and through the wrapped API), interleaved at every window of the underlying Value write; every result is the sum of some subset of the deltas that contains the call's own; the final counters equal the sum of the successful deltas",
		Run:  linCountRun,
		Real: []string{"pkg/trait/countpb MemoryDevice (delta interceptor)", "pkg/resource Value, GetAndUpdate", "pkg/wrap"}, Stub: []string{"caller tasks"}})
}

// linEnterLeaveRun: the same on the enter/leave model, whose totals are maintained by an interceptor of its own.
func linEnterLeaveRun(w *World) {
	t := w.Tape
	m := enterleavesensorpb.NewModel()
	type call struct {
		enter bool
		code  codes.Code
	}
	var calls []*call
	nt := 2 + t.Choose(3)
	for i := 0; i < nt; i++ {
		k := 1 + t.Choose(3)
		var mine []*call
		for j := 0; j < k; j++ {
			c := &call{enter: t.Flag(1, 2)}
			mine = append(mine, c)
			calls = append(calls, c)
		}
		w.Go(fmt.Sprintf("c%d", i), false, func(task *Task) {
			for _, c := range mine {
				task.Yield("op")
				dir := traits.EnterLeaveEvent_LEAVE
				if c.enter {
					dir = traits.EnterLeaveEvent_ENTER
				}
				err := m.CreateEnterLeaveEvent(&traits.EnterLeaveEvent{Direction: dir})
				c.code = status.Code(err)
				task.Note("%v -> %s", dir, c.code)
			}
		})
	}
	w.Run()
	if w.truncated {
		return
	}
	if w.Deadlocked || len(w.Unfinished(false)) > 0 {
		w.Violate("writer-stuck", "callers did not finish: "+strings.Join(w.Unfinished(true), ","), map[string]any{"resource": "enterleavesensorpb"})
		return
	}
	w.MarkNontrivial()
	var enters, leaves int32
	for _, c := range calls {
		switch c.code {
		case codes.OK:
			if c.enter {
				enters++
			} else {
				leaves++
			}
		case codes.Aborted, codes.Unavailable, codes.FailedPrecondition:
		default:
			w.Violate("unexpected-status", fmt.Sprintf("CreateEnterLeaveEvent answered %s", c.code), map[string]any{"resource": "enterleavesensorpb"})
		}
	}
	final, _ := m.GetEnterLeaveEvent()
	if final.GetEnterTotal() != enters || final.GetLeaveTotal() != leaves {
		w.Violate("lost-update", fmt.Sprintf("enterleavesensorpb: totals are enter=%d leave=%d, but %d ENTER and %d LEAVE events reported success", final.GetEnterTotal(), final.GetLeaveTotal(), enters, leaves),
			map[string]any{"resource": "enterleavesensorpb"})
	}
}

func linCountRun(w *World) {
	t := w.Tape
	if t.Flag(1, 3) {
		linEnterLeaveRun(w)
		return
	}
	dev := countpb.NewMemoryDevice()
	var api traits.CountApiClient
	if t.Flag(1, 3) {
		api = countpb.WrapApi(dev)
	}
	update := func(req *traits.UpdateCountRequest) (*traits.Count, error) {
		if api != nil {
			return api.UpdateCount(context.Background(), req)
		}
		return dev.UpdateCount(context.Background(), req)
	}
	type call struct {
		task          string
		added, remove int32
		code          codes.Code
		res           *traits.Count
	}
	nt := 2 + t.Choose(3)
	var calls []*call
	for i := 0; i < nt; i++ {
		name := fmt.Sprintf("c%d", i)
		k := 1 + t.Choose(3)
		var mine []*call
		for j := 0; j < k; j++ {
			c := &call{task: name, added: int32(1 + t.Choose(5)), remove: int32(t.Choose(3))}
			mine = append(mine, c)
			calls = append(calls, c)
		}
		w.Go(name, false, func(task *Task) {
			for _, c := range mine {
				task.Yield("op")
				res, err := update(&traits.UpdateCountRequest{Name: "n", Delta: true, Count: &traits.Count{Added: c.added, Removed: c.remove}})
				c.code, c.res = status.Code(err), res
				task.Note("+%d/-%d -> %s %v", c.added, c.remove, c.code, res)
			}
		})
	}
	w.Run()
	if w.truncated {
		return
	}
	if w.Deadlocked || len(w.Unfinished(false)) > 0 {
		w.Violate("writer-stuck", "callers did not finish: "+strings.Join(w.Unfinished(true), ","), map[string]any{"resource": "countpb"})
		return
	}
	w.MarkNontrivial()
	var sumA, sumR int32
	for _, c := range calls {
		switch c.code {
		case codes.OK:
			sumA += c.added
			sumR += c.remove
		case codes.Aborted, codes.Unavailable, codes.FailedPrecondition:
			// lost a race: no effect
		default:
			w.Violate("unexpected-status", fmt.Sprintf("UpdateCount(delta) answered %s", c.code), map[string]any{"resource": "countpb"})
		}
	}
	final, _ := dev.GetCount(context.Background(), &traits.GetCountRequest{Name: "n"})
	if final.Added != sumA || final.Removed != sumR {
		w.Violate("lost-update", fmt.Sprintf("countpb: counters are added=%d removed=%d but the successful deltas add up to added=%d removed=%d", final.Added, final.Removed, sumA, sumR),
			map[string]any{"resource": "countpb"})
	}
	for _, c := range calls {
		// each successful result lies between its own delta and the final counters
		if c.code == codes.OK && (c.res.Added < c.added || c.res.Added > sumA || c.res.Removed < c.remove || c.res.Removed > sumR) {
			w.Violate("not-linearizable", fmt.Sprintf("countpb: a delta of +%d/-%d returned added=%d removed=%d (final added=%d removed=%d)", c.added, c.remove, c.res.Added, c.res.Removed, sumA, sumR),
				map[string]any{"resource": "countpb", "ops": "delta"})
		}
	}
}
