package verifsim

import (
	"fmt"
	"runtime"
	"runtime/debug"
	"strings"
	"sync"
	"testing"
	"testing/synctest"
)

// Scenario is one simulated workload + oracle.
type Scenario struct {
	Name string
	Prop string
	// Doc is a one-line description used in the evidence.
	Doc string
	// Pre, when set, runs first in a bubble of its own (free-running reference executions); its result is handed to Run
	// as World.Pre. It draws from the same tape.
	Pre func(t *Tape) any
	// Run builds the system inside the bubble, drives it through w, and reports through w.Violate.
	// It must leave the bubble drained (every context cancelled, w.Run() called until all tasks are done).
	Run func(w *World)
	// Info returns static facts about the scenario for the evidence (e.g. what discovery covered and what it did not).
	Info func() any
	// Real / Stub describe which components run real code and which are harness stubs.
	Real, Stub []string
	// NoLeakCheck disables the end-of-run goroutine check (never for scenarios whose property includes it).
	NoLeakCheck bool
	// LeakClass is the violation class used for leaked goroutines with a sc-golang frame ("leak" by default).
	Faulty bool // uses fault injection (separate batch from fault-free scenarios)
}

// cleanDelta is the number of goroutines an empty bubble holds at its end (root + synctest plumbing), measured once per
// process by calibrate before the first run, so that a process that only replays one (leaking) run has a baseline too.
var cleanDelta = -1

func calibrate(t *testing.T) {
	t.Run("calibrate", func(t *testing.T) {
		before := runtime.NumGoroutine()
		synctest.Test(t, func(t *testing.T) {
			synctest.Wait()
			cleanDelta = runtime.NumGoroutine() - before
		})
	})
}

var scenarios = map[string]*Scenario{}
var scenarioOrder []string

func register(s *Scenario) {
	if _, dup := scenarios[s.Name]; dup {
		panic("duplicate scenario " + s.Name)
	}
	scenarios[s.Name] = s
	scenarioOrder = append(scenarioOrder, s.Name)
}

// execute runs one simulation of scn driven by tape and returns what happened.
// Garbage collection is taken out of the runs: a collection that starts in the middle of a run makes goroutines assist
// or yield at allocation points, which can change the order in which the library's own (eagerly running) goroutines get
// to run - and when a cycle starts depends on what the process did before, so a re-execution of the same tape would
// not see it at the same place. The collector is switched off and run explicitly between runs.
var (
	gcOff     sync.Once
	execCount int
)

func execute(t *testing.T, scn *Scenario, tape *Tape, trace bool) (res *RunResult) {
	gcOff.Do(func() { debug.SetGCPercent(-1) })
	if execCount++; execCount%32 == 0 {
		runtime.GC()
	}
	progress.Add(1)
	defer func() {
		if r := recover(); r != nil {
			msg := fmt.Sprint(r)
			if res != nil && strings.Contains(msg, "deadlock") {
				// synctest: goroutines were still blocked when the bubble's root returned; already reported as leaks
				return
			}
			buf := make([]byte, 16<<10)
			n := runtime.Stack(buf, false)
			if res == nil {
				res = &RunResult{Tape: append([]uint32(nil), tape.Recorded()...), Faults: map[string]int{}, Hits: map[string]int64{}}
			}
			res.Violations = append(res.Violations, Violation{Class: "harness-panic", Detail: msg + "\n" + string(buf[:n])})
		}
	}()
	// A subtest per run: when the race detector (or anything else) fails the bubble's test, synctest.Test calls FailNow,
	// which must only end this run's goroutine, not the worker loop.
	if cleanDelta < 0 {
		calibrate(t)
	}
	var pre any
	if scn.Pre != nil {
		t.Run("pre", func(t *testing.T) {
			defer func() {
				if r := recover(); r != nil && !strings.Contains(fmt.Sprint(r), "deadlock") {
					pre = fmt.Errorf("reference run panicked: %v", r)
				}
			}()
			synctest.Test(t, func(t *testing.T) { pre = scn.Pre(tape) })
		})
	}
	t.Run("run", func(t *testing.T) {
		defer func() {
			if r := recover(); r != nil {
				msg := fmt.Sprint(r)
				if res != nil && strings.Contains(msg, "deadlock") {
					return // goroutines still blocked when the bubble's root returned; already reported as leaks
				}
				buf := make([]byte, 16<<10)
				n := runtime.Stack(buf, false)
				if res == nil {
					res = &RunResult{Tape: append([]uint32(nil), tape.Recorded()...), Faults: map[string]int{}, Hits: map[string]int64{}}
				}
				res.Violations = append(res.Violations, Violation{Class: "harness-panic", Detail: msg + "\n" + string(buf[:n])})
			}
		}()
		execBubble(t, scn, tape, trace, pre, &res)
	})
	if raceBuild && res != nil {
		res.Violations = append(res.Violations, collectRaces()...)
	}
	return res
}

func execBubble(t *testing.T, scn *Scenario, tape *Tape, trace bool, pre any, out **RunResult) {
	var res *RunResult
	defer func() { *out = res }()
	before := runtime.NumGoroutine()
	synctest.Test(t, func(t *testing.T) {
		w := NewWorld(tape, scn.Name, trace)
		w.Pre = pre
		defer w.Close()
		func() {
			defer func() {
				if r := recover(); r != nil {
					buf := make([]byte, 16<<10)
					n := runtime.Stack(buf, false)
					st := string(buf[:n])
					site := panicSite(st)
					class := "panic"
					if site == "" {
						class = "harness-panic"
					}
					w.Violate(class, fmt.Sprintf("scheduler goroutine: %v\n%s", r, st), map[string]any{"task": "sched", "value": fmt.Sprint(r), "site": site})
				}
			}()
			scn.Run(w)
			// library goroutines that were adopted as tasks late in the scenario (e.g. started by its final cancels)
			// must get to run before the run is judged for leaks
			if !w.truncated && !w.Deadlocked && w.anyParked() {
				w.Run()
			}
		}()
		w.wait()
		// Dumping every goroutine is expensive once earlier (failing) runs have left goroutines behind for good, so it
		// is only done when this bubble holds more goroutines than a clean run does (root + synctest plumbing).
		extra := runtime.NumGoroutine() - before
		if cleanDelta < 0 || extra < cleanDelta {
			cleanDelta = extra
		}
		if !scn.NoLeakCheck && extra > cleanDelta {
			for _, g := range bubbleGoroutines() {
				class := "leak"
				if !g.Repo {
					class = "harness-leak"
				}
				site := ""
				for _, f := range g.Frames {
					if strings.Contains(f, "github.com/smart-core-os/sc-golang/") && !strings.Contains(f, "/internal/verifsim") && !strings.Contains(f, "/internal/simhook") {
						site = f
						if i := strings.LastIndex(site, "("); i > 0 {
							site = site[:i]
						}
						break
					}
				}
				if w.truncated || w.Deadlocked {
					continue // tasks left parked by an aborted run are not leaks of the library
				}
				w.Violate(class, g.Header+"\n"+strings.Join(g.Frames, "\n"), map[string]any{"site": site})
			}
		}
		res = w.result()
		*out = res
	})
}
