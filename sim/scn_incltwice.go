package verifsim

import (
	"context"
	"fmt"
	"sort"
	"strings"
	"time"

	"github.com/smart-core-os/sc-golang/pkg/resource"
)

// C08's last sentence with the option given twice: "folding the filtered stream always yields List with the same
// predicate" - whatever a read that carries two WithInclude options is taken to mean (the later one, both, ...), List
// and Pull are given the same options and must mean the same by them.

func init() {
	register(&Scenario{Name: "incl-twice", Prop: "C08", Doc: "a Collection read with two WithInclude options (random predicate tables over (id, value)): one writer (add / upsert / delete), 1-2 subscribers (backpressured or not, seeded; a backpressured one may take six seconds of fake time over every event) opened before or between the writes; at quiescence the folded stream equals List with the same two options",
		Run:  inclTwiceRun,
		Real: []string{"pkg/resource Collection (WithInclude, List, Pull)"}, Stub: []string{"writer/consumer tasks"}})
}

func inclTwiceRun(w *World) {
	t := w.Tape
	ids := []string{"a", "b", "c"}
	vals := []int32{1, 2, 3}
	cfg := resCfg{Coll: true, Initial: map[string]mm{}}
	for _, id := range ids {
		if t.Flag(1, 2) {
			cfg.Initial[id] = mm{V: vals[t.Choose(3)], S: id}
		}
	}
	r := newRealRes(cfg, &simClock{}, &simRNG{})
	w.MarkNontrivial()
	type sub struct {
		*subscriber
		p1, p2 *inclTable
		openAt int
		slow   bool // (backpressured only) takes six seconds of fake time over every event: the writers wait for it
	}
	nops := 1 + t.Choose(8)
	var subs []*sub
	for i, n := 0, 1+t.Choose(2); i < n; i++ {
		p1 := &inclTable{ids: ids, vals: vals, bits: uint64(t.Choose(1 << 12))}
		p2 := &inclTable{ids: ids, vals: vals, bits: uint64(t.Choose(1 << 12))}
		// (never true for absent values: the common kind of predicate)
		for k := range ids {
			p1.bits &^= 1 << uint(k*(len(vals)+1)+len(vals))
			p2.bits &^= 1 << uint(k*(len(vals)+1)+len(vals))
		}
		ctx, cancel := context.WithCancel(context.Background())
		sc := subCfg{Backpressure: t.Flag(1, 2), Include: p1, Include2: p2}
		subs = append(subs, &sub{subscriber: &subscriber{name: fmt.Sprintf("s%d", i), cfg: sc, ctx: ctx, cancel: cancel}, p1: p1, p2: p2, openAt: t.Choose(nops + 1), slow: sc.Backpressure && i == 0 && t.Flag(1, 3)})
	}
	open := func(pos int) {
		for _, s := range subs {
			if s.openAt != pos || s.opened {
				continue
			}
			s := s
			s.open(r)
			w.Go(s.name, true, func(task *Task) {
				for {
					task.Yield("recv")
					if !s.recv(w) {
						return
					}
					if s.slow {
						task.Sleep(6 * time.Second)
					}
				}
			})
		}
	}
	w.Go("w", false, func(task *Task) {
		for i := 0; i < nops; i++ {
			open(i)
			task.Yield("op")
			id := ids[t.Choose(len(ids))]
			var o wop
			switch t.Choose(4) {
			case 0:
				o = wop{Kind: opDelete, ID: id, AllowMiss: true}
			case 1:
				o = wop{Kind: opAdd, ID: id, Val: mm{V: vals[t.Choose(3)], S: id}}
			default:
				o = wop{Kind: opUpdate, ID: id, Val: mm{V: vals[t.Choose(3)], S: id}, CreateIfAbs: t.Flag(2, 3)}
			}
			res := r.apply(o)
			task.Note("%s -> %s", o, res)
		}
		open(nops)
	})
	w.Run()
	if w.truncated {
		return
	}
	if w.Deadlocked || len(w.Unfinished(false)) > 0 {
		w.Violate("writer-stuck", "the writer did not finish although every consumer keeps receiving: "+strings.Join(w.Unfinished(true), ","), nil)
		return
	}
	w.Go("oracle", false, func(task *Task) {
		task.Settle("at-rest")
		for _, s := range subs {
			if !s.opened {
				continue
			}
			view := foldOnto(nil, false, s.events)
			var vids []string
			for id := range view {
				vids = append(vids, id)
			}
			sort.Strings(vids)
			var folded, listed []string
			for _, id := range vids {
				folded = append(folded, view[id].String())
			}
			for _, p := range r.col.List(resource.WithInclude(s.p1.fn()), resource.WithInclude(s.p2.fn())) {
				listed = append(listed, mustMM(p).String())
			}
			if strings.Join(folded, " ") != strings.Join(listed, " ") {
				mode := "lossy"
				if s.cfg.Backpressure {
					mode = "backpressure"
				}
				w.Violate("fold-mismatch", fmt.Sprintf("%s [%s] opened after %d writes: the folded stream gives [%s], List with the same two include options gives [%s]\n  predicates: %s / %s\n  events: %s",
					s.name, s.cfg, s.openAt, strings.Join(folded, " "), strings.Join(listed, " "), s.p1.describe(), s.p2.describe(), eventsString(s.events)), map[string]any{"mode": mode, "options": "include-twice"})
			}
		}
	})
	w.Run()
	for _, s := range subs {
		s.cancel()
	}
	w.Run()
}
