package verifsim

import (
	"context"
	"fmt"
	"sort"
	"strings"
	"sync"
	"time"

	"google.golang.org/grpc/codes"

	"github.com/smart-core-os/sc-api/go/types"
	"github.com/smart-core-os/sc-golang/pkg/resource"
)

// C03 — a subscriber's folded view converges to the store's state (DESIGN.md §5 C03).

func init() {
	register(&Scenario{Name: "conv-value", Prop: "C03", Doc: "1-3 writers on a Value, 1-2 subscribers (Pull with any options) opened mid-flight, consumer pace = schedule; folded view vs Get at true quiescence",
		Run:  func(w *World) { convRun(w, false) },
		Real: []string{"pkg/resource Value", "internal/minibus Bus/DropExcess"}, Stub: []string{"writer and consumer tasks", "clock", "id rng"}})
	register(&Scenario{Name: "conv-coll", Prop: "C03", Doc: "1-3 writers (Add/Update/Delete) on a Collection, 1-2 subscribers (Pull/PullID with any options) opened mid-flight; folded view vs List at true quiescence",
		Run:  func(w *World) { convRun(w, true) },
		Real: []string{"pkg/resource Collection", "internal/minibus Bus", "mergeCollectionExcess"}, Stub: []string{"writer and consumer tasks", "clock", "id rng"}})
}

// probe is a never-parked, always-receiving backpressured updates-only subscriber that records the publish order.
type probe struct {
	mu     sync.Mutex
	events []sev
	cancel context.CancelFunc
	sub    *subscriber
}

func startProbe(w *World, r *realRes) *probe {
	p := &probe{}
	ctx, cancel := context.WithCancel(context.Background())
	p.cancel = cancel
	s := &subscriber{name: "probe", cfg: subCfg{UpdatesOnly: true, Backpressure: true}, ctx: ctx, cancel: cancel}
	p.sub = s
	s.open(r)
	go func() {
		for s.recv(w) {
		}
	}()
	return p
}

type convWorld struct {
	w       *World
	r       *realRes
	coll    bool
	writers []*writer
	subs    []*subscriber
	probe   *probe
	cfg     resCfg
	// a backpressured subscription that is never read was opened before everything else (Value only)
	stuck       bool
	stuckCancel context.CancelFunc
}

func convRun(w *World, coll bool) {
	t := w.Tape
	g := &opGen{tape: t, coll: coll, ids: []string{"a", "b"}, include: true}
	cw := &convWorld{w: w, coll: coll}
	g.initial(&cw.cfg)
	if t.Flag(1, 4) {
		// an equivalence under which many consecutive writes are equivalent (they differ only in V, which still tells
		// the writes apart for the oracle): the subscriber's view must then agree with the store up to that equivalence
		cw.cfg.EquivNoV, g.pool = true, true
		// ... and, for a Value, sometimes a tolerance on N on top (like the float tolerances of the trait models): a run
		// of small steps must not carry the subscriber's view further from the store than the tolerance
		cw.cfg.EquivTolN = !coll && t.Flag(1, 2)
	}
	clock := &simClock{}
	cw.r = newRealRes(cw.cfg, clock, &simRNG{})
	w.RecordGates = true
	// the probe (an always-receiving subscriber used to tell a publish reordering from a missed event) is itself a
	// listener on the bus: in a third of the runs it is left out, so that subscriptions are also opened on a resource
	// that nobody is listening to yet
	if !t.Flag(1, 3) {
		cw.probe = startProbe(w, cw.r)
	}

	if !coll && t.Flag(1, 6) {
		// a neighbour that subscribed with backpressure and never reads: every Value write then runs into its send bound
		// (fake time passes whenever nothing else can run) and reports an error - after the commit. The subscribers that
		// came later and keep receiving must not be the worse for it: a lossy one is always ready for the most recent
		// value. (Backpressured ones that are behind at that moment are not owed the event; they are not judged here.)
		cw.stuck = true
		sctx, scancel := context.WithCancel(context.Background())
		cw.stuckCancel = scancel
		_ = cw.r.val.Pull(sctx, resource.WithBackpressure(true))
		w.wait()
		w.IdleAdvance, w.IdleAdvanceN = 6*time.Second, 40
		w.Fault("stuck-neighbour")
	}
	nw := 1 + t.Choose(3)
	for i := 0; i < nw; i++ {
		wr := &writer{name: fmt.Sprintf("w%d", i)}
		n := 1 + t.Choose(3)
		for j := 0; j < n; j++ {
			wr.ops = append(wr.ops, g.writeOp())
		}
		cw.writers = append(cw.writers, wr)
	}
	if coll && t.Flag(1, 4) {
		// an item that is created with nothing in it (a blank message is a value like any other: the item exists,
		// Get and List return it, and subscribers are told)
		wr := cw.writers[t.Choose(len(cw.writers))]
		k := t.Choose(len(wr.ops))
		wr.ops[k] = wop{Kind: opUpdate, ID: []string{"a", "b"}[t.Choose(2)], CreateIfAbs: true, Val: mm{}}
		if t.Flag(1, 2) {
			wr.ops[k].Kind = opAdd
		}
		w.Fault("blank-item")
	}
	ns := 1 + t.Choose(2)
	for i := 0; i < ns; i++ {
		ctx, cancel := context.WithCancel(context.Background())
		s := &subscriber{name: fmt.Sprintf("s%d", i), cfg: g.subCfg(true), ctx: ctx, cancel: cancel}
		if t.Flag(1, 3) {
			// a slow consumer (fake time only passes when nobody else can run): everything that can pile up in front
			// of it does, so the merging / dropping stages of lossy subscriptions see long runs of events
			s.lag, s.lagEvery = []time.Duration{100 * time.Millisecond, 500 * time.Millisecond, time.Second}[t.Choose(3)], t.Flag(1, 2)
		}
		if !coll && i == 0 && s.cfg.Backpressure && t.Flag(1, 4) {
			// a backpressured consumer that takes three seconds over every event: no single delivery comes near the five
			// second bound of a Value write, but writers queue up behind each other for longer than that
			s.lag, s.lagEvery = 3*time.Second, true
		}
		if i > 0 && cw.subs[0].lag >= 3*time.Second {
			s.lag = 0 // (two slow consumers in a row would legitimately exceed the bound)
		}
		cw.subs = append(cw.subs, s)
	}
	for _, wr := range cw.writers {
		wr := wr
		w.Go(wr.name, false, func(t *Task) { wr.run(t, cw.r) })
	}
	for _, s := range cw.subs {
		s := s
		late := t.Choose(4) // some subscribers turn up while the writers are already at work
		w.Go(s.name, true, func(t *Task) {
			for i := 0; i < late; i++ {
				t.Yield("later")
			}
			s.run(t, cw.r)
		})
	}
	var passerBy context.CancelFunc
	if t.Flag(1, 3) {
		// somebody who subscribes and soon leaves again: listeners come and go while the others must not notice
		ctx, cancel := context.WithCancel(context.Background())
		passerBy = cancel // (it may still be waiting for its first event when the run is over)
		tmp := &subscriber{name: "passer-by", cfg: subCfg{Backpressure: t.Flag(1, 2), UpdatesOnly: t.Flag(1, 2)}, ctx: ctx, cancel: cancel}
		stay := t.Choose(3)
		w.Go(tmp.name, true, func(t *Task) {
			tmp.open(cw.r)
			for i := 0; i < stay; i++ {
				t.Yield("recv")
				if !tmp.recv(t.W) {
					return
				}
			}
			t.Yield("leave")
			cancel()
			for tmp.recv(t.W) {
			}
		})
	}
	w.Run()
	if w.Deadlocked {
		w.Violate("deadlock", "tasks blocked on mutexes forever: "+strings.Join(w.Unfinished(true), ","), nil)
	} else if u := w.Unfinished(false); len(u) > 0 && !w.truncated {
		w.Violate("writer-stuck", "writers did not finish although every consumer keeps receiving: "+strings.Join(u, ","), nil)
	} else if !w.truncated {
		w.Go("oracle", false, func(t *Task) { cw.check(t) })
		w.Run()
	}
	// shutdown
	for _, s := range cw.subs {
		s.cancel()
	}
	if passerBy != nil {
		passerBy()
	}
	if cw.probe != nil {
		cw.probe.cancel()
	}
	if cw.stuckCancel != nil {
		cw.stuckCancel()
	}
	w.Run()
}

func (cw *convWorld) storeContents() (map[string]mm, bool, mm) {
	if cw.coll {
		out := map[string]mm{}
		for _, id := range []string{"a", "b"} {
			res := cw.r.apply(wop{Kind: opGet, ID: id})
			if res.Found {
				out[id] = res.Msg
			}
		}
		return out, false, mm{}
	}
	res := cw.r.apply(wop{Kind: opGet})
	return nil, res.HasMsg, res.Msg
}

// commitOrder derives, per id, the sequence of committed versions ("v<N>" or "rm") from the gate log and the histories.
func (cw *convWorld) commitOrder() (map[string][]string, []hop) {
	var all []hop
	for _, wr := range cw.writers {
		all = append(all, wr.hist...)
	}
	type c struct {
		step int64
		h    hop
	}
	var cs []c
	gates := cw.w.Gates()
	for _, h := range all {
		if h.Res.Code != codes.OK {
			continue
		}
		if h.Op.Kind == opDelete && !h.Res.HasMsg {
			continue // allow-missing delete of an absent item: no commit
		}
		step := int64(-1)
		for _, gp := range gates {
			if gp.Task == h.Task && gp.Step >= h.Inv && gp.Step <= h.Ret && (gp.Point == "resource.gau.commit" || gp.Point == "collection.delete.commit") {
				step = gp.Step
			}
		}
		cs = append(cs, c{step, h})
	}
	sort.SliceStable(cs, func(i, j int) bool { return cs[i].step < cs[j].step })
	out := map[string][]string{}
	for _, x := range cs {
		id := x.h.Op.ID
		if x.h.Op.Kind == opDelete {
			out[id] = append(out[id], "rm")
		} else {
			out[id] = append(out[id], fmt.Sprintf("v%d", x.h.Res.Msg.V))
		}
	}
	return out, all
}

func (cw *convWorld) publishOrder() map[string][]string {
	out := map[string][]string{}
	if cw.probe == nil {
		return nil
	}
	for _, e := range cw.probe.sub.events {
		if e.Type == types.ChangeType_REMOVE {
			out[e.ID] = append(out[e.ID], "rm")
		} else {
			out[e.ID] = append(out[e.ID], fmt.Sprintf("v%d", e.New.V))
		}
	}
	return out
}

func (cw *convWorld) check(t *Task) {
	w := cw.w
	store, present, val := cw.storeContents()
	commits, all := cw.commitOrder()
	pubs := cw.publishOrder()
	reordered := func(id string) bool {
		return pubs != nil && strings.Join(commits[id], ",") != strings.Join(pubs[id], ",")
	}
	committedV := map[int32]bool{}
	for _, h := range all {
		if h.Res.Code == codes.OK && h.Res.HasMsg {
			committedV[h.Res.Msg.V] = true
		}
	}
	if cw.stuck {
		// (a write that ran into the send bound reports an error although it was committed)
		for _, h := range all {
			committedV[h.Op.Val.V] = true
		}
	}
	for _, v := range cw.cfg.Initial {
		committedV[v.V] = true
	}
	if cw.cfg.HasInitial {
		committedV[cw.cfg.InitialVal.V] = true
	}
	for _, s := range cw.subs {
		if !s.opened || (cw.stuck && s.cfg.Backpressure) {
			continue
		}
		t.Note("%s[%s] pull@[%d,%d] events: %s", s.name, s.cfg, s.pullInvoked, s.pullReturn, eventsString(s.events))
		for _, e := range s.events {
			if e.HasNew && !committedV[e.New.V] {
				w.Violate("phantom", fmt.Sprintf("%s received %v which nobody committed", s.name, e), map[string]any{"resource": resName(cw.coll)})
			}
		}
		// ids this subscriber is answerable for
		answerable := map[string]bool{}
		if !s.cfg.UpdatesOnly {
			answerable["a"], answerable["b"], answerable[""] = true, true, true
		}
		for _, e := range s.events {
			answerable[e.ID] = true
		}
		for _, h := range all {
			// (under an equivalence an updates-only subscriber that never received anything for an id may simply have
			// been spared changes equivalent to what was there before: only what it was told about counts)
			if h.Res.Code == codes.OK && h.Inv > s.pullReturn && (h.Op.Kind != opDelete || h.Res.HasMsg) && !(cw.cfg.EquivNoV && s.cfg.UpdatesOnly) {
				answerable[h.Op.ID] = true
			}
		}
		stale := func(id, got, want string) {
			class := "stale-view/missed-event"
			if reordered(id) {
				class = "stale-view/publish-reorder"
			}
			mode := "lossy"
			if s.cfg.Backpressure {
				mode = "backpressure"
			}
			key := map[string]any{"resource": resName(cw.coll), "mode": mode, "cause": cw.staleCause(s, id, all)}
			w.Violate(class, fmt.Sprintf("%s [%s] id %q: folded view has %s, store has %s; commit order %v, publish order %v; events: %s",
				s.name, s.cfg, id, got, want, commits[id], pubs[id], eventsString(s.events)), key)
		}
		proj := func(m mm) mm { return m.project(s.cfg.RMask, !s.cfg.RMaskSet) }
		same := func(a, b mm) bool {
			if cw.cfg.EquivNoV {
				a.V, b.V = 0, 0
			}
			if d := a.N - b.N; cw.cfg.EquivTolN && d >= -1 && d <= 1 {
				a.N, b.N = 0, 0
			}
			return a == b
		}
		switch {
		case !cw.coll:
			if !answerable[""] {
				continue
			}
			if len(s.events) == 0 {
				if present && !(cw.cfg.EquivNoV && s.cfg.UpdatesOnly) {
					stale("", "<no event>", proj(val).String())
				}
				continue
			}
			last := s.events[len(s.events)-1]
			if !present || !same(last.New, proj(val)) {
				stale("", last.New.String(), fmt.Sprint(proj(val), present))
			}
		case s.cfg.UsePullID:
			id := s.cfg.PullID
			if s.closed || !answerable[id] {
				continue
			}
			cur, ok := store[id]
			if len(s.events) == 0 {
				if ok {
					stale(id, "<no event>", proj(cur).String())
				}
				continue
			}
			last := s.events[len(s.events)-1]
			if !ok {
				mode := "lossy"
				if s.cfg.Backpressure {
					mode = "backpressure"
				}
				w.Violate("pullid-not-closed", fmt.Sprintf("%s [%s]: item %q was removed but the PullID stream is still open after %s", s.name, s.cfg, id, eventsString(s.events)),
					map[string]any{"resource": "collection", "mode": mode, "cause": cw.staleCause(s, id, all)})
				continue
			}
			if !same(last.New, proj(cur)) {
				stale(id, last.New.String(), proj(cur).String())
			}
		default:
			view := foldColl(s.events)
			for _, id := range []string{"a", "b"} {
				if !answerable[id] {
					continue
				}
				got, gok := view[id]
				want, wok := store[id]
				if wok && s.cfg.Include != nil && !s.cfg.Include.eval(id, false, want.V) {
					wok = false // the subscription behaves as if the collection only held the items satisfying the predicate
				}
				if gok != wok || (gok && !same(got, proj(want))) {
					gs, ws := "<absent>", "<absent>"
					if gok {
						gs = got.String()
					}
					if wok {
						ws = proj(want).String()
					}
					stale(id, gs, ws)
				}
			}
			for id := range view {
				if id != "a" && id != "b" {
					w.Violate("phantom", fmt.Sprintf("%s view contains unknown id %q", s.name, id), map[string]any{"resource": "collection"})
				}
			}
		}
	}
}

func resName(coll bool) string {
	if coll {
		return "collection"
	}
	return "value"
}

// staleCause recognises one specific, separately recorded mechanism (see known_findings.json): a lossy subscriber whose
// seed contains an item, whose creation event is published (again) after the subscriber registered, and which is then
// removed: the merge pump cancels the duplicate ADD against the REMOVE and the subscriber never learns of the removal.
func (cw *convWorld) staleCause(s *subscriber, id string, all []hop) string {
	if !cw.coll || s.cfg.Backpressure || s.cfg.UpdatesOnly {
		return ""
	}
	inSeed, later := false, false
	for _, e := range s.events {
		if e.ID != id {
			continue
		}
		if e.Seed {
			inSeed = true
		} else {
			later = true
		}
	}
	if !inSeed || later {
		return ""
	}
	if res := cw.r.apply(wop{Kind: opGet, ID: id}); res.Found {
		// still stored: only the same thing if it is gone from this subscriber's filtered collection (the REMOVE that was
		// cancelled against the duplicate ADD is then the one the include filter makes out of an update)
		if s.cfg.Include == nil || s.cfg.Include.eval(id, false, res.Msg.V) {
			return ""
		}
	}
	gates := cw.w.Gates()
	snap, reg := int64(-1), int64(-1)
	for _, g := range gates {
		if g.Task == s.name && g.Point == "collection.sub.snapshot" {
			snap = g.Step
		}
		if g.Task == s.name && g.Point == "bus.listen.register" {
			reg = g.Step
		}
	}
	if snap < 0 || reg < 0 {
		return ""
	}
	for _, h := range all {
		if h.Res.Code != codes.OK || h.Op.ID != id || h.Op.Kind == opDelete {
			continue
		}
		commit, publish := int64(-1), int64(-1)
		for _, g := range gates {
			if g.Task == h.Task && g.Step >= h.Inv && g.Step <= h.Ret {
				if g.Point == "resource.gau.commit" {
					commit = g.Step
				}
				if g.Point == "bus.send.snapshot" {
					publish = g.Step
				}
			}
		}
		if commit >= 0 && commit < snap && publish > reg {
			return "seed-duplicate-add-merged-with-remove"
		}
	}
	return ""
}
