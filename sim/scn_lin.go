package verifsim

import (
	"fmt"
	"sort"
	"strings"

	"github.com/anishathalye/porcupine"
	"google.golang.org/grpc/codes"
)

// C02 — concurrent writes are atomic: linearizable outcomes, no lost updates (DESIGN.md §5 C02).

func init() {
	register(&Scenario{Name: "lin-value", Prop: "C02", Doc: "2-4 writer tasks (Set with CAS / check / delta interceptor / masks) and a reader on one Value; history checked with porcupine against the reference model, plus counter conservation",
		Run:  func(w *World) { linRun(w, false) },
		Real: []string{"pkg/resource Value, GetAndUpdate", "internal/minibus"}, Stub: []string{"writer/reader tasks", "clock", "id rng"}})
	register(&Scenario{Name: "lin-coll", Prop: "C02", Doc: "2-4 writer tasks (Add/Update/Delete with CAS / check / delta / create-if-absent / generated ids) and a reader on one Collection over ids {a,b}; porcupine vs reference model, plus conservation checks",
		Run:  func(w *World) { linRun(w, true) },
		Real: []string{"pkg/resource Collection, GetAndUpdate", "internal/minibus"}, Stub: []string{"writer/reader tasks", "clock", "id rng"}})
}

type linState struct {
	m *model
}

func linModel(cfg resCfg) porcupine.Model {
	return porcupine.Model{
		Init: func() interface{} { return newModel(cfg) },
		Step: func(state, input, output interface{}) (bool, interface{}) {
			m := state.(*model)
			o := input.(wop)
			r := output.(wres)
			if r.Code == codes.Aborted || r.Code == codes.Unavailable {
				// lost a race: legal anywhere, must have no effect
				return true, m
			}
			c := m.clone()
			want := c.apply(o, r.ID)
			if !sameRes(want, r) {
				return false, m
			}
			return true, c
		},
		Equal: func(a, b interface{}) bool {
			x, y := a.(*model), b.(*model)
			if x.present != y.present || x.val != y.val || len(x.items) != len(y.items) {
				return false
			}
			for k, v := range x.items {
				if w, ok := y.items[k]; !ok || w != v {
					return false
				}
			}
			return true
		},
		DescribeOperation: func(input, output interface{}) string {
			return fmt.Sprintf("%v -> %v", input.(wop), output.(wres))
		},
	}
}

func linRun(w *World, coll bool) {
	t := w.Tape
	g := &opGen{tape: t, coll: coll, ids: []string{"a", "b"}, gen: true}
	var cfg resCfg
	g.initial(&cfg)
	counterMode := t.Flag(1, 4)
	r := newRealRes(cfg, &simClock{}, &simRNG{})
	nw := 2 + t.Choose(3)
	var writers []*writer
	for i := 0; i < nw; i++ {
		wr := &writer{name: fmt.Sprintf("w%d", i)}
		n := 1 + t.Choose(3)
		for j := 0; j < n; j++ {
			var o wop
			if counterMode {
				o = wop{Kind: opSet, Val: mm{V: g.fresh()}, HasDelta: true, Delta: int64(1 + t.Choose(4))}
				if coll {
					o.Kind, o.ID, o.CreateIfAbs = opUpdate, g.pickID(), true
				}
				if t.Flag(1, 2) {
					o.HasMask, o.Mask = true, []string{fV, fN}
				}
			} else {
				o = g.writeOp()
			}
			wr.ops = append(wr.ops, o)
		}
		writers = append(writers, wr)
	}
	// a reader
	rd := &writer{name: "r"}
	nr := t.Choose(4)
	for j := 0; j < nr; j++ {
		o := wop{Kind: opGet}
		if coll {
			if t.Flag(1, 2) {
				o.Kind = opList
			} else {
				o.ID = g.pickID()
			}
		}
		switch t.Choose(4) {
		case 1:
			o.RMaskSet, o.RMask = true, []string{fV}
		case 2:
			o.RMaskSet, o.RMask = true, []string{fV, fN}
		}
		rd.ops = append(rd.ops, o)
	}
	// optionally a lossy subscriber that is never read (it must not affect writers) and a draining backpressured one
	for _, wr := range writers {
		wr := wr
		w.Go(wr.name, false, func(t *Task) { wr.run(t, r) })
	}
	if nr > 0 {
		w.Go(rd.name, false, func(t *Task) { rd.run(t, r) })
	}
	w.Run()
	if !w.truncated && !w.Deadlocked && len(w.Unfinished(false)) == 0 && len(rd.ops) > 0 {
		// the same reads once more when everything has come to rest: a read must not have left anything behind that a
		// later read of the same kind picks up
		rd2 := &writer{name: "r2", ops: rd.ops}
		w.Go(rd2.name, false, func(t *Task) { rd2.run(t, r) })
		w.Run()
		rd.hist = append(rd.hist, rd2.hist...)
	}
	if w.Deadlocked {
		w.Violate("deadlock", "tasks blocked forever: "+strings.Join(w.Unfinished(true), ","), nil)
		return
	}
	if u := w.Unfinished(false); len(u) > 0 {
		if !w.truncated {
			w.Violate("writer-stuck", "writers did not finish: "+strings.Join(u, ","), nil)
		}
		return
	}
	// final reads are part of the history
	fin := &writer{name: "final"}
	if coll {
		fin.ops = []wop{{Kind: opList}}
	} else {
		fin.ops = []wop{{Kind: opGet}}
	}
	w.Go(fin.name, false, func(t *Task) { fin.run(t, r) })
	w.Run()

	var all []hop
	for _, wr := range append(append([]*writer{}, writers...), rd, fin) {
		all = append(all, wr.hist...)
	}
	var ops []porcupine.Operation
	clients := map[string]int{}
	for _, h := range all {
		if _, ok := clients[h.Task]; !ok {
			clients[h.Task] = len(clients)
		}
		if h.Res.NonFlat {
			w.Violate("garbage-result", "result carries fields nobody wrote: "+h.String(), nil)
		}
		ops = append(ops, porcupine.Operation{ClientId: clients[h.Task], Input: h.Op, Output: h.Res, Call: h.Inv, Return: h.Ret})
	}
	res := porcupine.CheckOperations(linModel(cfg), ops)
	if !res {
		sort.SliceStable(all, func(i, j int) bool { return all[i].Inv < all[j].Inv })
		var sb strings.Builder
		kinds := map[string]bool{}
		for _, h := range all {
			sb.WriteString("\n  " + h.String())
			if h.Op.Kind != opGet && h.Op.Kind != opList {
				kinds[h.Op.Kind] = true
			}
		}
		var ks []string
		for k := range kinds {
			ks = append(ks, k)
		}
		sort.Strings(ks)
		w.Violate("not-linearizable", "no one-at-a-time order consistent with real time explains this history (initial "+newModel(cfg).contentsString()+"):"+sb.String(),
			map[string]any{"resource": resName(coll), "ops": strings.Join(ks, "+")})
	}
	// conservation, independent of porcupine
	if counterMode {
		sum := map[string]int64{}
		if coll {
			for id, v := range cfg.Initial {
				sum[id] = v.N
			}
		} else if cfg.HasInitial {
			sum[""] = cfg.InitialVal.N
		}
		for _, wr := range writers {
			for _, h := range wr.hist {
				if h.Res.Code == codes.OK {
					sum[h.Op.ID] += h.Op.Delta
				}
			}
		}
		final := fin.hist[0].Res
		if coll {
			got := map[string]int64{}
			i := 0
			// List returns the items sorted by id; pair them with ids through Get
			for _, id := range []string{"a", "b"} {
				gr := r.apply(wop{Kind: opGet, ID: id})
				if gr.Found {
					got[id] = gr.Msg.N
					i++
				}
			}
			for id, want := range sum {
				if got[id] != want {
					w.Violate("lost-update", fmt.Sprintf("id %q: counter is %d but the successful increments add up to %d", id, got[id], want), map[string]any{"resource": "collection"})
				}
			}
		} else if final.Msg.N != sum[""] {
			w.Violate("lost-update", fmt.Sprintf("counter is %d but the successful increments add up to %d", final.Msg.N, sum[""]), map[string]any{"resource": "value"})
		}
	}
}
