package verifsim

import (
	"fmt"
	"os"
	"runtime"
	"sort"
	"strings"
	"sync"
	"sync/atomic"
	"testing/synctest"
	"time"
	"unsafe"

	"github.com/smart-core-os/sc-golang/internal/simhook"
)

// ---------------------------------------------------------------------------------------------------------------
// Kernel: tasks, hook handler, scheduler.
//
// Rules (see DESIGN.md §3):
//   - a task is a goroutine the kernel knows by goroutine id; every other goroutine is "internal" and never parks
//     (exception: an internal goroutine that finds a hooked mutex held by a parked task is adopted for the duration
//     of that wait, so that it never really blocks on the mutex, which would not be a durable block for synctest);
//   - the scheduler releases exactly one parked task, then waits for the whole bubble to go quiescent;
//   - a task always parks in front of a hooked mutex (gate) and probes the mutex only once it has been released, so a
//     probe can never collide with another running goroutine;
//   - all shared bookkeeping lives in fixed arrays / plain fields that are only touched by //go:norace functions or
//     through sync/atomic, and every kernel synchronisation is wrapped in hideBegin/hideEnd, so that a -race build
//     does not see the scheduler's hand-offs as happens-before edges between tasks.
// ---------------------------------------------------------------------------------------------------------------

const maxTasks = 160
const maxPoints = 320

const (
	stNew int32 = iota
	stParked
	stRunning
	stDone
)

// Policy kinds.
const (
	polSticky   = iota // keep the current task; switch with probability 1/switchDen at preemptible points
	polUniform         // uniform among eligible tasks
	polBudget          // at most `preemptBudget` switches away from a runnable current task, placed by the tape
	polPriority        // every task has a (salt-derived) priority, the highest eligible one runs; at 1-3 tape-placed steps the running task drops below everybody else (PCT style: a task can be starved for as long as anything else can run)
)

type Task struct {
	W    *World
	Name string
	idx  int

	goid          uint64
	wake          chan struct{}
	state         int32
	point         string
	preemptible   bool
	gateBlocked   bool
	gateFails     int // consecutive failed probes of the current gate
	gateWait      int // steps by other tasks to sit out before the next probe (exponential back-off)
	daemon        bool
	prio          uint64 // polPriority: larger runs first; demoted tasks get small values
	auto          bool
	spawned       bool // a library-started goroutine adopted at its first statement (lazyGo)
	unnamed       bool // (spawned) not named yet: see nameSpawned
	site          int  // (spawned) index of the point it was adopted at
	prioInherited bool
	settling      bool      // parked in Settle: only released when no other task is eligible
	wakeAt        time.Time // Sleep: not eligible before this (fake) time
	noPark        bool      // task-level switch: plain yield points do not park (gates still do)

	done chan struct{} // closed (visibly to the race detector) when the task finishes

	panicked   bool
	panicVal   string
	panicStack string

	// task-local log, merged after the run
	notes []string
}

type Violation struct {
	Class  string         `json:"class"`
	Detail string         `json:"detail"`
	Key    map[string]any `json:"key,omitempty"`
}

type World struct {
	Tape     *Tape
	Scenario string
	Pre      any // result of the scenario's Pre phase

	mu     sync.Mutex // protects tasks/ntasks growth and violations; always used inside hideBegin/hideEnd
	tasks  [maxTasks]*Task
	ntasks int32

	step      int64
	cur       int
	policy    int
	demoteAt  []int64 // polPriority: steps at which the running task is demoted
	demoted   uint64  // polPriority: number of demotions so far
	switchDen int
	budget    int
	maxSteps  int
	truncated bool
	// runtimeChoice: the run went through a state in which the Go runtime picks between several ready select cases at
	// random (e.g. everything a call does under a context that is already done). Outcomes are still judged, but the
	// schedule is not a pure function of the tape: excluded from determinism re-checks, replayed with retries.
	runtimeChoice bool
	Deadlocked    bool
	progress      int64 // releases that were not re-probes of a gate
	deadlockMark  int64

	pointNames   [maxPoints]string
	npoints      int32
	pointEnabled [maxPoints]bool
	pointHits    [maxPoints]int64
	allPoints    bool // every point preemptible (default decided per run)
	// lazyGo: goroutines started by the library are adopted as (daemon) tasks at their first statement, so that when they
	// get to run is decided by the scheduler instead of "at once, until they block" (decided per run; per spawn site the
	// usual point enablement applies)
	lazyGo   bool
	selSalt  uint64 // seeds the choice among ready select cases, per step
	spawnSeq [maxPoints]int32
	waitingW [16]struct {
		addr uintptr
		n    int32
	} // writers waiting at a gate, per mutex
	salt uint64

	// interference: which task kinds ran while another task was parked at a hook point
	overlaps int64

	fp        uint64 // schedule fingerprint
	traceOn   bool
	trace     []string
	switches  int
	startTime time.Time

	violations []Violation

	caseKey     string
	caseTotal   int
	nontrivial  bool // set by scenarios whose notion of non-trivial is not schedule based
	RecordGates bool
	gateLog     [256]GatePass
	ngates      int

	// scheduler-owned notes (only from the scheduler goroutine)
	notes []string

	// time faults
	AdvanceBudget int             // number of tape-placed advance actions still allowed
	AdvanceDurs   []time.Duration // candidate durations
	IdleAdvance   time.Duration   // when nothing is eligible but unfinished non-daemon tasks remain, sleep this long...
	IdleAdvanceN  int             // ...at most this many times per Run call
	advanced      time.Duration
	nextWake      time.Time // earliest wake-up of a sleeping task (set by collect)
}

var curWorld atomic.Pointer[World]

func init() {
	simhook.Handler = func(point string, try func() bool) {
		w := curWorld.Load()
		if w == nil {
			return
		}
		w.hook(point, try)
	}
	simhook.GateHandler = func(point string, mu unsafe.Pointer, read bool, try func() bool) {
		w := curWorld.Load()
		if w == nil {
			return
		}
		w.hook(point, w.writerPreference(uintptr(mu), read, try))
	}
}

// writerPreference gives lock gates the queueing discipline of sync.RWMutex: once a writer has found the mutex taken
// (i.e. would be blocked inside Lock, which announces it), readers arriving later do not get in before it.
//
//go:norace
func (w *World) writerPreference(addr uintptr, read bool, try func() bool) func() bool {
	if read {
		return func() bool {
			if w.writersWaiting(addr, 0) > 0 {
				return false
			}
			return try()
		}
	}
	announced := false
	return func() bool {
		if try() {
			if announced {
				w.writersWaiting(addr, -1)
				announced = false
			}
			return true
		}
		if !announced {
			w.writersWaiting(addr, +1)
			announced = true
		}
		return false
	}
}

// writersWaiting adjusts (by delta) and returns the number of writers waiting at a gate for the mutex at addr.
//
//go:norace
func (w *World) writersWaiting(addr uintptr, delta int32) int32 {
	hideBegin()
	w.mu.Lock()
	defer func() {
		w.mu.Unlock()
		hideEnd()
	}()
	if os.Getenv("VERIF_DEBUG_WP") != "" && delta != 0 {
		defer func() { println("WP", addr, delta, "step", w.step) }()
	}
	free := -1
	for i := range w.waitingW {
		e := &w.waitingW[i]
		if e.addr == addr && e.n > 0 {
			e.n += delta
			return e.n
		}
		if e.n == 0 && free < 0 {
			free = i
		}
	}
	if delta > 0 && free >= 0 {
		w.waitingW[free].addr, w.waitingW[free].n = addr, delta
		return delta
	}
	return 0
}

// The kernel's own bookkeeping words (task states, counters) are read and written through these helpers: plain accesses
// in functions the race detector does not instrument. Tasks and scheduler alternate through (hidden) channel hand-offs,
// so the accesses are ordered in fact; but neither an atomic operation (which the detector treats as a release/acquire
// pair between the goroutines involved) nor an instrumented plain access (which it would report) may tell it so -
// otherwise the kernel itself would order, and thereby hide, the library's races.
//
//go:norace
//go:noinline
func ldi32(p *int32) int32 { return *p }

//go:norace
//go:noinline
func sti32(p *int32, v int32) { *p = v }

//go:norace
//go:noinline
func ldi64(p *int64) int64 { return *p }

//go:norace
//go:noinline
func addi64(p *int64, d int64) int64 { *p += d; return *p }

//go:norace
//go:noinline
func addi32(p *int32, d int32) int32 { *p += d; return *p }

// simYield is a scheduling point inside a harness-owned seam (injected clock, rng, callbacks, interceptors).
func simYield(point string) {
	if w := curWorld.Load(); w != nil {
		w.hook(point, nil)
	}
}

func goid() uint64 {
	var buf [64]byte
	n := runtime.Stack(buf[:], false)
	var id uint64
	for i := 10; i < n; i++ {
		c := buf[i]
		if c < '0' || c > '9' {
			break
		}
		id = id*10 + uint64(c-'0')
	}
	return id
}

// parentGoid returns the id of the goroutine that started the calling goroutine ("created by ... in goroutine N").
func parentGoid() uint64 {
	buf := make([]byte, 4096)
	n := runtime.Stack(buf, false)
	s := buf[:n]
	const marker = " in goroutine "
	for i := len(s) - len(marker); i >= 0; i-- {
		if string(s[i:i+len(marker)]) == marker {
			var id uint64
			for j := i + len(marker); j < len(s) && s[j] >= '0' && s[j] <= '9'; j++ {
				id = id*10 + uint64(s[j]-'0')
			}
			return id
		}
	}
	return 0
}

// NewWorld must be called inside the bubble.
func NewWorld(tape *Tape, scenario string, trace bool) *World {
	w := &World{Tape: tape, Scenario: scenario, cur: -1, traceOn: trace, maxSteps: 600}
	w.startTime = time.Now()
	// scheduling policy, swarm style
	switch tape.Choose(5) {
	case 0, 1:
		w.policy = polSticky
		w.switchDen = []int{4, 2, 3, 6, 10, 16}[tape.Choose(6)]
	case 2:
		w.policy = polUniform
	case 3:
		w.policy = polBudget
		w.budget = 1 + tape.Choose(3)
		w.switchDen = []int{6, 3, 10, 20}[tape.Choose(4)]
	case 4:
		w.policy = polPriority
		for i, n := 0, 1+tape.Choose(3); i < n; i++ {
			w.demoteAt = append(w.demoteAt, int64(1+tape.Choose([]int{30, 100, 300}[tape.Choose(3)])))
		}
	}
	w.allPoints = !tape.Flag(1, 3)
	w.lazyGo = tape.Flag(1, 2) && !raceBuild // (race builds randomise the runtime's own run queue; and races do not depend on the schedule)
	w.selSalt = uint64(tape.Choose(1 << 16))
	w.salt = uint64(tape.Choose(1 << 16))
	curWorld.Store(w)
	return w
}

//go:norace
func (w *World) Close() { curWorld.Store(nil); simSelectSeed = 0 }

//go:norace
func (w *World) lookup(g uint64) *Task {
	hideBegin()
	defer hideEnd()
	n := int(ldi32(&w.ntasks))
	for i := 0; i < n; i++ {
		t := w.tasks[i]
		if t != nil && t.goid == g && ldi32(&t.state) != stDone {
			return t
		}
	}
	return nil
}

// wasTask reports whether goroutine g is or was a task of this run. (For the decision whether a goroutine started by g
// is adopted a task that has already finished counts as well: whether the parent gets to finish before its child
// executes its first statement is up to the Go runtime and must not decide anything.)
//
//go:norace
func (w *World) wasTask(g uint64) bool { return w.anyTask(g) != nil }

//go:norace
func (w *World) anyTask(g uint64) *Task {
	hideBegin()
	defer hideEnd()
	n := int(ldi32(&w.ntasks))
	for i := 0; i < n; i++ {
		if t := w.tasks[i]; t != nil && t.goid == g {
			return t
		}
	}
	return nil
}

//go:norace
func (w *World) pointName(i int) string { return w.pointNames[i] }

//go:norace
func (w *World) pointIndex(point string) int {
	n := int(ldi32(&w.npoints))
	for i := 0; i < n; i++ {
		if w.pointNames[i] == point {
			return i
		}
	}
	hideBegin()
	w.mu.Lock()
	n = int(w.npoints)
	idx := -1
	for i := 0; i < n; i++ {
		if w.pointNames[i] == point {
			idx = i
		}
	}
	if idx < 0 && n < maxPoints {
		idx = n
		w.pointNames[n] = point
		// Per-point enablement is a pure function of the run's tape prefix and the point name, so it does not
		// depend on the order in which points are first reached.
		w.pointEnabled[n] = w.allPoints || strings.HasPrefix(point, "fault:") || (splitmix(hashString(point)^w.salt)%3 != 0)
		sti32(&w.npoints, int32(n+1))
	}
	w.mu.Unlock()
	hideEnd()
	if idx < 0 {
		return 0
	}
	return idx
}

//go:norace
func (w *World) addTask(t *Task) {
	hideBegin()
	w.mu.Lock()
	n := int(w.ntasks)
	if n >= maxTasks {
		w.mu.Unlock()
		hideEnd()
		panic("verifsim: too many tasks")
	}
	t.idx = n
	// (from the name, not from the index: the order in which library-started goroutines register themselves is not
	// deterministic, their names are)
	h := uint64(14695981039346656037)
	for i := 0; i < len(t.Name); i++ {
		h = (h ^ uint64(t.Name[i])) * 1099511628211
	}
	t.prio = 1<<32 + splitmix(w.salt<<16^h)>>33
	w.tasks[n] = t
	sti32(&w.ntasks, int32(n+1))
	w.mu.Unlock()
	hideEnd()
}

// hook is the simhook handler.
//
// hook is the simhook handler. Everything the kernel does on a task's (or a library) goroutine is hidden from the race
// detector as far as synchronisation goes: its atomics and locks must not order the accesses of two tasks that the
// library itself leaves unordered (an atomic store by one task followed by an atomic load by another is a
// happens-before edge and would hide every race whose accesses lie on either side of it).
//
//go:norace
func (w *World) hook(point string, try func() bool) {
	hideBegin()
	defer hideEnd()
	w.hookHidden(point, try)
}

//go:norace
func (w *World) hookHidden(point string, try func() bool) {
	g := goid()
	t := w.lookup(g)
	if t == nil {
		if try == nil {
			if w.lazyGo && strings.HasPrefix(point, "auto:go:") {
				w.adoptSpawned(point, g)
			}
			return
		}
		if hiddenTry(try) {
			return
		}
		// The holder may be a goroutine of the same cascade that is about to release the mutex (as it would have if this
		// goroutine had simply blocked on it): give it the chance before concluding that the holder is a parked task.
		for i := 0; i < 100; i++ {
			runtime.Gosched()
			if hiddenTry(try) {
				return
			}
		}
		// internal goroutine in front of a mutex held by a parked task: adopt it until the mutex is free
		t = &Task{W: w, Name: "auto:" + point, goid: g, wake: make(chan struct{}), done: make(chan struct{}), auto: true, daemon: true}
		sti32(&t.state, stRunning)
		w.addTask(t)
		for {
			t.gateFails++
			t.gateWait = 1 << min(t.gateFails-1, 5)
			t.gateBlocked = true
			t.park(point, false)
			if hiddenTry(try) {
				break
			}
		}
		w.progress++
		t.Done()
		return
	}
	pi := w.pointIndex(point)
	addi64(&w.pointHits[pi], 1)
	en := w.pointEnabled[pi]
	if try == nil {
		if en && !t.noPark {
			t.park(point, true)
		}
		return
	}
	t.park(point, en && !t.noPark)
	for !hiddenTry(try) {
		t.gateFails++
		t.gateWait = 1 << min(t.gateFails-1, 5)
		t.gateBlocked = true
		t.park(point, true)
	}
	if t.gateFails > 0 {
		w.progress++ // a re-probe that got through changes the situation: whoever waits behind it may now be able to go on
	}
	t.gateFails = 0
	// Only the task released in this step can be here (every other task parks before probing), so the log needs no lock.
	if w.RecordGates && w.ngates < len(w.gateLog) {
		w.gateLog[w.ngates] = GatePass{Task: t.Name, Point: point, Step: ldi64(&w.step)}
		w.ngates++
	}
}

// adoptSpawned turns a goroutine that the library has just started into a daemon task, parked at its first statement.
//
//go:norace
func (w *World) adoptSpawned(point string, g uint64) {
	// Only goroutines started by a task (or by an adopted goroutine): what the scenario's own set-up code starts while no
	// task is running it keeps the eager behaviour - when exactly such a goroutine first runs relative to the set-up
	// code is up to the Go scheduler, so nothing may depend on it.
	if n := int(ldi32(&w.ntasks)); n == 0 || n > maxTasks-24 || !w.wasTask(parentGoid()) {
		return
	}
	pi := w.pointIndex(point)
	if !w.pointEnabled[pi] {
		return
	}
	addi64(&w.pointHits[pi], 1)
	// The task gets its name ("<site>#<k>") when the scheduler next looks (nameSpawned), not here: in which order sibling
	// goroutines reach their first statement is up to the Go scheduler (the last one started usually runs first; a spawner
	// that the runtime preempts in the middle of its loop changes that), whereas their goroutine ids follow the order in
	// which they were started.
	t := &Task{W: w, Name: "", goid: g, wake: make(chan struct{}), done: make(chan struct{}), daemon: true, spawned: true, unnamed: true, site: pi}
	sti32(&t.state, stRunning)
	w.addTask(t)
	if p := w.anyTask(parentGoid()); p != nil {
		t.prio = p.prio // priority policy: a goroutine continues the activity of the one that started it
		t.prioInherited = true
	}
	t.park("start", true)
}

// nameSpawned names the goroutines adopted since the scheduler last looked, in the order of their goroutine ids.
//
//go:norace
func (w *World) nameSpawned() {
	n := int(ldi32(&w.ntasks))
	var pendBuf [maxTasks]*Task
	pend := pendBuf[:0]
	for i := 0; i < n; i++ {
		if t := w.tasks[i]; t.unnamed {
			pend = append(pend, t)
		}
	}
	if len(pend) == 0 {
		return
	}
	for i := 1; i < len(pend); i++ { // (insertion sort: short, and no closures in kernel code)
		for j := i; j > 0 && pend[j-1].goid > pend[j].goid; j-- {
			pend[j-1], pend[j] = pend[j], pend[j-1]
		}
	}
	for _, t := range pend {
		k := addi32(&w.spawnSeq[t.site], 1)
		t.Name = fmt.Sprintf("%s#%d", strings.TrimPrefix(w.pointName(t.site), "auto:"), k)
		t.unnamed = false
		if !t.prioInherited {
			h := uint64(14695981039346656037)
			for i := 0; i < len(t.Name); i++ {
				h = (h ^ uint64(t.Name[i])) * 1099511628211
			}
			t.prio = 1<<32 + splitmix(w.salt<<16^h)>>33
		}
	}
}

// anyParked reports whether some task is parked at a scheduling point.
//
//go:norace
func (w *World) anyParked() bool {
	n := int(ldi32(&w.ntasks))
	for i := 0; i < n; i++ {
		if ldi32(&w.tasks[i].state) == stParked {
			return true
		}
	}
	return false
}

// LazyGoroutines reports whether library-started goroutines are scheduled lazily in this run.
//
//go:norace
func (w *World) LazyGoroutines() bool { return w.lazyGo }

// GatePass records that a task went through a lock gate in a given step.
type GatePass struct {
	Task  string
	Point string
	Step  int64
}

// Gates returns the recorded gate passes (call at quiescence only).
//
//go:norace
func (w *World) Gates() []GatePass { return w.gateLog[:w.ngates] }

func hiddenTry(try func() bool) bool {
	hideBegin()
	ok := try()
	hideEnd()
	return ok
}

// park blocks the calling task until the scheduler releases it.
//
//go:norace
func (t *Task) park(point string, preemptible bool) {
	hideBegin()
	defer hideEnd()
	t.point = point
	t.preemptible = preemptible
	sti32(&t.state, stParked)
	<-t.wake
}

// Go starts a harness task. Must be called from inside the bubble.
//
//go:norace
func (w *World) Go(name string, daemon bool, f func(t *Task)) *Task {
	t := &Task{W: w, Name: name, wake: make(chan struct{}), done: make(chan struct{}), daemon: daemon}
	w.addTask(t)
	started := make(chan struct{})
	go func() {
		t.goid = goid()
		hideBegin()
		close(started)
		hideEnd()
		defer t.finish()
		t.park("start", true)
		f(t)
	}()
	hideBegin()
	<-started
	hideEnd()
	return t
}

// Adopt registers the calling (library-started) goroutine as a task and parks it once.
// The caller must call Done when the goroutine leaves harness code for good.
//
//go:norace
func (w *World) Adopt(name string, daemon bool) *Task {
	hideBegin()
	defer hideEnd()
	t := &Task{W: w, Name: name, wake: make(chan struct{}), done: make(chan struct{}), daemon: daemon, goid: goid()}
	sti32(&t.state, stRunning)
	w.addTask(t)
	t.park("start", true)
	return t
}

// Detach turns an adopted task into a daemon: the goroutine goes back into library code (where hooks may still park
// it) and will exit on its own; nothing waits for it any more.
//
//go:norace
func (t *Task) Detach() { t.daemon = true }

// Done marks an adopted task as finished.
//
//go:norace
func (t *Task) Done() {
	hideBegin()
	defer hideEnd()
	close(t.done)
	sti32(&t.state, stDone)
}

//go:norace
func (t *Task) finish() {
	if r := recover(); r != nil {
		buf := make([]byte, 16<<10)
		n := runtime.Stack(buf, false)
		t.setPanic(fmt.Sprint(r), string(buf[:n]))
	}
	t.Done()
}

//go:norace
func (t *Task) setPanic(v, stack string) {
	t.panicked = true
	t.panicVal = v
	t.panicStack = stack
}

// Sleep makes the task ineligible until d of fake time has passed. Time only advances when no task is eligible
// (discrete-event style): the scheduler then jumps to the earliest wake-up, so nothing runnable is ever withheld
// while time passes.
//
//go:norace
func (t *Task) Sleep(d time.Duration) {
	t.wakeAt = time.Now().Add(d)
	t.park("sleep", true)
	t.wakeAt = time.Time{}
}

// Yield is a harness-level scheduling point.
//
//go:norace
func (t *Task) Yield(op string) { t.park(op, true) }

// Settle parks the task until nothing else can run: every other task (library goroutines that were adopted included)
// has finished or is blocked. Oracles that speak about "a reader that keeps up" or "the next Get" use it to let the
// system come to rest first.
//
//go:norace
func (t *Task) Settle(op string) {
	t.settling = true
	t.park(op, true)
	t.settling = false
}

// NoPark switches parking at plain library yield points off (gates still park) for coarse-grained scenarios.
//
//go:norace
func (t *Task) NoPark(v bool) { t.noPark = v }

// Step returns the global step counter: constant between two scheduling decisions.
//
//go:norace
func (w *World) Step() int64 {
	hideBegin()
	defer hideEnd()
	return ldi64(&w.step)
}

// Note appends to the task-local log (merged into the trace after the run, in task order).
//
//go:norace
func (t *Task) Note(format string, args ...any) {
	t.notes = append(t.notes, fmt.Sprintf(format, args...))
}

// MarkNontrivial lets a scenario with its own notion of a non-trivial case flag the run; Mix adds to the fingerprint.
//
//go:norace
func (w *World) MarkNontrivial() { w.nontrivial = true }

// MarkRuntimeChoice declares that this run contains select statements with several ready cases (see runtimeChoice).
//
//go:norace
func (w *World) MarkRuntimeChoice() { w.runtimeChoice = true }

// SetCase names the point of a finite case space this run covered (reported as measured coverage of that space).
//
//go:norace
func (w *World) SetCase(c string) { w.caseKey = c }

// SetCaseTotal states the size of that case space when the scenario itself can compute it.
//
//go:norace
func (w *World) SetCaseTotal(n int) { w.caseTotal = n }

//go:norace
func (w *World) Mix(s string) { w.mix(s) }

//go:norace
func (w *World) SetMaxSteps(n int) { w.maxSteps = n }

// Note from the scheduler goroutine.
//
//go:norace
func (w *World) Note(format string, args ...any) {
	w.notes = append(w.notes, fmt.Sprintf(format, args...))
}

//go:norace
func (w *World) Violate(class, detail string, key map[string]any) {
	hideBegin()
	w.mu.Lock()
	w.violations = append(w.violations, Violation{Class: class, Detail: detail, Key: key})
	w.mu.Unlock()
	hideEnd()
}

// Fault counts a fault (or probe) that actually fired.
//
//go:norace
func (w *World) Fault(kind string) {
	hideBegin()
	defer hideEnd()
	pi := w.pointIndex("fault:" + kind)
	addi64(&w.pointHits[pi], 1)
}

//go:norace
func (w *World) wait() {
	hideBegin()
	synctest.Wait()
	hideEnd()
}

type parkedInfo struct {
	t           *Task
	point       string
	preemptible bool
}

//go:norace
func (w *World) collect(elig []parkedInfo) (out []parkedInfo, blockedGates int, running int, unfinished int) {
	w.nameSpawned()
	out = elig[:0]
	var settlingBuf [8]parkedInfo
	settling := settlingBuf[:0]
	n := int(ldi32(&w.ntasks))
	now := time.Now()
	w.nextWake = time.Time{}
	for i := 0; i < n; i++ {
		t := w.tasks[i]
		switch ldi32(&t.state) {
		case stParked:
			if !t.wakeAt.IsZero() && now.Before(t.wakeAt) {
				if w.nextWake.IsZero() || t.wakeAt.Before(w.nextWake) {
					w.nextWake = t.wakeAt
				}
				if !t.daemon {
					unfinished++
				}
				continue
			}
			if t.gateBlocked {
				blockedGates++
				if !t.daemon {
					unfinished++
				}
				continue
			}
			if !t.daemon {
				unfinished++
			}
			if t.settling {
				settling = append(settling, parkedInfo{t, t.point, t.preemptible})
				continue
			}
			out = append(out, parkedInfo{t, t.point, t.preemptible})
			// keep the list ordered by task name: registration order of library-started goroutines that adopt themselves
			// (group members, handlers) is not deterministic, their names are
			for k := len(out) - 1; k > 0 && out[k].t.Name < out[k-1].t.Name; k-- {
				out[k], out[k-1] = out[k-1], out[k]
			}
		case stRunning, stNew:
			running++
			if !t.daemon {
				unfinished++
			}
		}
	}
	if len(out) == 0 && blockedGates == 0 && len(settling) > 0 {
		// nothing else can run (a task that sits out a back-off at a lock gate can: it is not at rest): the settling
		// tasks (in name order) become eligible
		for _, p := range settling {
			out = append(out, p)
			for k := len(out) - 1; k > 0 && out[k].t.Name < out[k-1].t.Name; k-- {
				out[k], out[k-1] = out[k-1], out[k]
			}
		}
	}
	return
}

//go:norace
func (w *World) unblockAll() {
	n := int(ldi32(&w.ntasks))
	for i := 0; i < n; i++ {
		w.tasks[i].gateBlocked = false
		w.tasks[i].gateWait = 0
	}
}

//go:norace
func (w *World) release(t *Task) {
	n := int(ldi32(&w.ntasks))
	for i := 0; i < n; i++ {
		if o := w.tasks[i]; o != t && o.gateBlocked {
			// another task takes a step: a blocked task may probe again once it has sat out its back-off
			if o.gateWait--; o.gateWait <= 0 {
				o.gateBlocked = false
			}
		}
	}
	if t.gateFails == 0 {
		w.progress++ // not a mere re-probe of a gate
	}
	sti32(&t.state, stRunning)
	addi64(&w.step, 1)
	hideBegin()
	t.wake <- struct{}{}
	hideEnd()
}

//go:norace
func (w *World) mix(s string) {
	h := w.fp
	if h == 0 {
		h = 14695981039346656037
	}
	for i := 0; i < len(s); i++ {
		h ^= uint64(s[i])
		h *= 1099511628211
	}
	h ^= 0xff
	h *= 1099511628211
	w.fp = h
}

//go:norace
func (w *World) sleep(d time.Duration) {
	hideBegin()
	time.Sleep(d)
	hideEnd()
}

// Advance jumps fake time by d while every task is withheld.
//
//go:norace
func (w *World) Advance(d time.Duration) {
	w.wait()
	w.sleep(d)
	w.wait()
	w.advanced += d
	w.Fault("advance")
	w.mix("advance:" + d.String())
	if w.traceOn {
		w.trace = append(w.trace, "advance("+d.String()+")")
	}
}

// Run schedules tasks until none is eligible (every task is finished, durably blocked, or blocked on a gate).
//
//go:norace
func (w *World) Run() {
	// (the scheduler's own atomics and channel operations are no synchronisation between tasks: see hook)
	hideBegin()
	defer hideEnd()
	var buf [maxTasks]parkedInfo
	var idleSpent time.Duration
	for {
		w.sleep(time.Microsecond)
		w.wait()
		elig, blockedGates, _, unfinished := w.collect(buf[:0])
		if len(elig) == 0 && !w.nextWake.IsZero() {
			// nothing can run now, but a task is sleeping: jump to its wake-up time
			if d := time.Until(w.nextWake); d > 0 {
				w.Advance(d)
			}
			continue
		}
		if len(elig) == 0 {
			if blockedGates > 0 {
				// Only tasks waiting for mutexes are left. Let each of them probe once more; if we come back here and
				// nothing but re-probes happened in between, nobody is ever going to release those mutexes.
				if w.deadlockMark == w.progress+1 {
					w.Deadlocked = true
					return
				}
				w.deadlockMark = w.progress + 1
				w.unblockAll()
				continue
			}
			if unfinished > 0 && w.IdleAdvance > 0 && idleSpent < w.IdleAdvance*time.Duration(w.IdleAdvanceN) {
				// Nothing can run: let fake time pass so that pending timers fire. The time of the next timer is not
				// known, so time passes in small quanta; as soon as a timer has made a task runnable the loop sees it,
				// and no runnable task is withheld for longer than one quantum.
				const quantum = 200 * time.Millisecond
				idleSpent += quantum
				w.Advance(quantum)
				continue
			}
			return
		}
		if int(w.Step()) >= w.maxSteps {
			w.truncated = true
			return
		}
		// tape-placed time jump
		if w.AdvanceBudget > 0 && len(w.AdvanceDurs) > 0 && w.Tape.Flag(1, 12) {
			w.AdvanceBudget--
			w.Advance(w.AdvanceDurs[w.Tape.Choose(len(w.AdvanceDurs))])
			continue
		}
		// order: current task first (so that 0 = keep running), then by index
		ci := -1
		for i, p := range elig {
			if p.t.idx == w.cur {
				ci = i
			}
		}
		var pick parkedInfo
		switch {
		case ci >= 0 && !elig[ci].preemptible:
			pick = elig[ci]
		case len(elig) == 1:
			pick = elig[0]
		default:
			if ci > 0 {
				c := elig[ci]
				copy(elig[1:ci+1], elig[0:ci])
				elig[0] = c
			}
			k := 0
			switch w.policy {
			case polUniform:
				k = w.Tape.Choose(len(elig))
			case polSticky:
				if ci < 0 {
					k = w.Tape.Choose(len(elig))
				} else if w.Tape.Flag(1, w.switchDen) {
					k = 1 + w.Tape.Choose(len(elig)-1)
				}
			case polBudget:
				if ci < 0 {
					k = w.Tape.Choose(len(elig))
				} else if w.budget > 0 && w.Tape.Flag(1, w.switchDen) {
					w.budget--
					k = 1 + w.Tape.Choose(len(elig)-1)
				}
			case polPriority:
				if ci >= 0 {
					for _, at := range w.demoteAt {
						if at == w.Step() {
							w.demoted++
							elig[0].t.prio = 1<<31 - w.demoted
						}
					}
				}
				for i := range elig {
					if elig[i].t.prio > elig[k].t.prio {
						k = i
					}
				}
			}
			pick = elig[k]
			if ci >= 0 && k != 0 {
				w.switches++
				if pick.point != "start" && elig[0].point != "start" {
					w.overlaps++
				}
			}
		}
		w.mix(pick.t.Name)
		w.mix(pick.point)
		if w.traceOn {
			w.trace = append(w.trace, pick.t.Name+"@"+pick.point)
		}
		w.cur = pick.t.idx
		simSelectSeed = splitmix(w.selSalt<<20^uint64(w.Step())) | 1
		w.release(pick.t)
	}
}

// AutoPending reports whether an internal goroutine is currently waiting (as an adopted task) for a hooked mutex.
//
//go:norace
func (w *World) AutoPending() bool {
	n := int(ldi32(&w.ntasks))
	for i := 0; i < n; i++ {
		if t := w.tasks[i]; t.auto && ldi32(&t.state) != stDone {
			return true
		}
	}
	return false
}

// Unfinished lists tasks (daemon or not, by flag) that have not finished.
//
//go:norace
func (w *World) Unfinished(includeDaemons bool) []string {
	var out []string
	n := int(ldi32(&w.ntasks))
	for i := 0; i < n; i++ {
		t := w.tasks[i]
		if ldi32(&t.state) != stDone && (includeDaemons || !t.daemon) && !t.auto {
			st := "blocked"
			if ldi32(&t.state) == stParked {
				st = "parked@" + t.point
			}
			out = append(out, t.Name+":"+st)
		}
	}
	return out
}

//go:norace
func (w *World) taskList() []*Task {
	n := int(ldi32(&w.ntasks))
	out := make([]*Task, 0, n)
	for i := 0; i < n; i++ {
		out = append(out, w.tasks[i])
	}
	return out
}

// ---- leak detection ----------------------------------------------------------------------------------------------

type stuckG struct {
	Header string
	Frames []string
	Repo   bool // has a sc-golang (non-harness) frame
}

// bubbleGoroutines returns the goroutines of the current bubble other than the caller.
func bubbleGoroutines() []stuckG {
	buf := make([]byte, 1<<20)
	n := runtime.Stack(buf, true)
	for n == len(buf) && len(buf) < 256<<20 {
		buf = make([]byte, 4*len(buf))
		n = runtime.Stack(buf, true)
	}
	blocks := strings.Split(string(buf[:n]), "\n\n")
	var out []stuckG
	self := fmt.Sprintf("goroutine %d ", goid())
	bubble := ""
	for _, b := range blocks {
		if strings.HasPrefix(b, self) {
			if i := strings.Index(b, "synctest bubble "); i >= 0 {
				bubble = b[i:]
				if j := strings.IndexAny(bubble, "]\n"); j >= 0 {
					bubble = bubble[:j+1]
				}
			}
		}
	}
	if bubble == "" {
		return nil
	}
	for _, b := range blocks {
		lines := strings.Split(strings.TrimSpace(b), "\n")
		if len(lines) == 0 {
			continue
		}
		h := lines[0]
		if !strings.Contains(h, bubble) || strings.HasPrefix(h, self) || strings.Contains(h, "[synctest.Run") {
			continue
		}
		if len(lines) > 1 && (strings.HasPrefix(lines[1], "testing/synctest.") || strings.HasPrefix(lines[1], "internal/synctest.")) {
			continue // synctest's own plumbing
		}
		g := stuckG{Header: h}
		for _, l := range lines[1:] {
			if strings.HasPrefix(l, "\t") || strings.HasPrefix(l, " ") {
				continue
			}
			g.Frames = append(g.Frames, l)
			if strings.Contains(l, "github.com/smart-core-os/sc-golang/") && !strings.Contains(l, "/internal/verifsim") && !strings.Contains(l, "/internal/simhook") {
				g.Repo = true
			}
		}
		out = append(out, g)
	}
	return out
}

// Result of one run.
type RunResult struct {
	Violations    []Violation
	Tape          []uint32
	Trace         []string
	Notes         []string
	Fingerprint   uint64
	Steps         int64
	Switches      int
	Overlaps      int64
	Faults        map[string]int
	Hits          map[string]int64
	Truncated     bool
	SimTime       time.Duration
	Nontrivial    bool
	TraceHash     uint64
	Case          string
	CaseTotal     int
	RuntimeChoice bool
}

//go:norace
func (w *World) result() *RunResult {
	r := &RunResult{
		Tape: append([]uint32(nil), w.Tape.Recorded()...), Trace: w.trace, Fingerprint: w.fp, Steps: w.Step(),
		Switches: w.switches, Overlaps: w.overlaps, Faults: map[string]int{}, Truncated: w.truncated,
		SimTime: time.Since(w.startTime), Hits: map[string]int64{}, Case: w.caseKey, CaseTotal: w.caseTotal, RuntimeChoice: w.runtimeChoice,
	}
	for i := 0; i < int(ldi32(&w.npoints)); i++ {
		if f, ok := strings.CutPrefix(w.pointNames[i], "fault:"); ok {
			r.Faults[f] = int(ldi64(&w.pointHits[i]))
		} else {
			r.Hits[w.pointNames[i]] = ldi64(&w.pointHits[i])
		}
	}
	r.Notes = append(r.Notes, w.notes...)
	for _, t := range w.taskList() {
		select {
		case <-t.done: // visible join: the task's local log may now be read
		default:
			continue
		}
		for _, n := range t.notes {
			r.Notes = append(r.Notes, t.Name+": "+n)
		}
		if t.panicked {
			class := "panic"
			w.violations = append(w.violations, Violation{Class: class, Detail: t.Name + ": " + t.panicVal + "\n" + t.panicStack,
				Key: map[string]any{"task": t.Name, "value": t.panicVal, "site": panicSite(t.panicStack)}})
		}
	}
	// deterministic order of violations
	sort.SliceStable(w.violations, func(i, j int) bool { return w.violations[i].Class < w.violations[j].Class })
	r.Violations = w.violations
	nf := 0
	for _, v := range r.Faults {
		nf += v
	}
	r.Nontrivial = w.overlaps > 0 || nf > 0 || w.nontrivial
	h := w.fp
	for _, n := range r.Notes {
		h ^= hashString(n)
		h *= 1099511628211
	}
	for _, v := range r.Violations {
		h ^= hashString(v.Class)
		h *= 1099511628211
	}
	r.TraceHash = h
	return r
}

// panicSite extracts the first sc-golang (non-harness) frame of a panic stack, or the first frame.
func panicSite(stack string) string {
	lines := strings.Split(stack, "\n")
	for _, l := range lines {
		if strings.HasPrefix(l, "github.com/smart-core-os/sc-golang/") && !strings.Contains(l, "/internal/verifsim") && !strings.Contains(l, "/internal/simhook") {
			if i := strings.LastIndex(l, "("); i > 0 {
				l = l[:i]
			}
			return l
		}
	}
	return ""
}
