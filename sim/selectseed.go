package verifsim

import _ "unsafe" // go:linkname

// simSelectSeed lives in the (overlaid, see ./check build) copy of runtime/select.go: when non-zero, the order in which a
// select polls its cases - i.e. which of several ready cases it takes - is derived from it instead of from the runtime's
// own random source. The scheduler sets it before every release from the run's tape, so that select choices are part of
// the replayable schedule and are explored like every other choice.
//
//go:linkname simSelectSeed runtime.simSelectSeed
var simSelectSeed uint64
