package verifsim

// Decision tape: the single source of every choice made in a run.
//
// In exploration the tape is produced lazily by a PCG-style generator seeded from (seed, scenario, run index) and
// every reduced value is recorded. In replay the recorded values are read back; an exhausted tape yields 0, which by
// convention is always the simplest choice (no fault, keep the current task, stop generating operations).

type Tape struct {
	data   []uint32 // replay source (nil in exploration)
	replay bool
	pos    int
	rec    []uint32
	state  uint64
	inc    uint64
}

func splitmix(x uint64) uint64 {
	x += 0x9e3779b97f4a7c15
	x = (x ^ (x >> 30)) * 0xbf58476d1ce4e5b9
	x = (x ^ (x >> 27)) * 0x94d049bb133111eb
	return x ^ (x >> 31)
}

func hashString(s string) uint64 {
	h := uint64(14695981039346656037)
	for i := 0; i < len(s); i++ {
		h ^= uint64(s[i])
		h *= 1099511628211
	}
	return h
}

// NewTape returns a generating tape for (seed, scenario, run).
func NewTape(seed int64, scenario string, run int64) *Tape {
	s := splitmix(uint64(seed)) ^ splitmix(hashString(scenario)+1) ^ splitmix(uint64(run)*0x2545f4914f6cdd1d+7)
	t := &Tape{state: splitmix(s), inc: splitmix(s+1) | 1}
	return t
}

// ReplayTape returns a tape that replays the given values.
func ReplayTape(data []uint32) *Tape {
	return &Tape{data: data, replay: true}
}

func (t *Tape) next32() uint32 {
	old := t.state
	t.state = old*6364136223846793005 + t.inc
	xorshifted := uint32(((old >> 18) ^ old) >> 27)
	rot := uint32(old >> 59)
	return (xorshifted >> rot) | (xorshifted << ((-rot) & 31))
}

// Choose returns a value in [0,n). n<=1 returns 0 and consumes nothing.
func (t *Tape) Choose(n int) int {
	if n <= 1 {
		return 0
	}
	var v uint32
	if t.replay {
		if t.pos < len(t.data) {
			v = t.data[t.pos] % uint32(n)
		}
		t.pos++
	} else {
		v = t.next32() % uint32(n)
	}
	t.rec = append(t.rec, v)
	return int(v)
}

// Flag is true with probability num/den; the value 0 (exhausted tape) is always false.
func (t *Tape) Flag(num, den int) bool {
	if num <= 0 {
		return false
	}
	return t.Choose(den) >= den-num
}

// Range returns a value in [lo,hi].
func (t *Tape) Range(lo, hi int) int {
	return lo + t.Choose(hi-lo+1)
}

// Recorded returns the reduced values consumed so far.
func (t *Tape) Recorded() []uint32 { return t.rec }
