package verifsim

import (
	"context"
	"fmt"
	"math"
	"math/rand"
	"sort"
	"strings"
	"sync"
	"time"

	"google.golang.org/grpc"
	"google.golang.org/grpc/codes"
	"google.golang.org/grpc/status"
	"google.golang.org/protobuf/proto"
	"google.golang.org/protobuf/reflect/protoreflect"
	"google.golang.org/protobuf/reflect/protoregistry"
	"google.golang.org/protobuf/types/known/fieldmaskpb"

	"github.com/smart-core-os/sc-api/go/traits"
	"github.com/smart-core-os/sc-golang/pkg/router"
	"github.com/smart-core-os/sc-golang/pkg/trait/electricpb"
)

// C14 — trait servers give read-your-writes through the full stack (DESIGN.md §5 C14).
//
// Every model server / memory device discovered in pkg/trait is put behind WrapApi(router(WrapApi(server))) and every
// Get/Update/Pull triple found in its service descriptors is exercised with protoreflect-built requests.

func init() {
	register(&Scenario{Name: "stack", Prop: "C14", Doc: "for a tape-chosen discovered model server / memory device and Get/Update/Pull triple of its services: client -> wrapper -> router -> wrapper -> server; short histories of Update (random message, valid/invalid/nil update mask) and Get (nil/valid read mask) with 0-2 open Pull streams (keeping-up readers; updates-only or not); relational register laws checked at quiescence after every RPC",
		Run: func(w *World) { stackRun(w, false) },
		Info: func() any {
			triplesOnce.Do(discoverTriples)
			var cov []string
			for _, tr := range triples {
				cov = append(cov, fmt.Sprintf("%s %s/%s", tr.what, tr.entry.Desc.ServiceName, tr.x))
			}
			return map[string]any{"triples_covered": cov, "not_covered": notCovered}
		},
		Real: []string{"every discovered *pb.ModelServer / MemoryDevice with a Get/Update/Pull triple", "generated routers and wrappers", "pkg/wrap", "pkg/router", "pkg/resource"}, Stub: []string{"client task", "stream reader goroutines"}})
}

func init() {
	register(&Scenario{Name: "stack-race", Prop: "C14", Doc: "the same stack, every run a race: an older stream is closed, one or two other clients update and a new stream is opened, all at the same time (handler goroutines scheduled by the simulator in half of the runs); once everything has returned and come to rest the new stream must have arrived at what Get returns",
		Run:  func(w *World) { stackRun(w, true) },
		Real: []string{"every discovered *pb.ModelServer / MemoryDevice with a Get/Update/Pull triple", "generated routers and wrappers", "pkg/wrap", "pkg/router", "pkg/resource"}, Stub: []string{"client tasks", "stream reader goroutines"}})
}

type triple struct {
	entry             svcEntry
	server            func() any
	what              string // "<pkg>.<server kind>"
	x                 string
	get, update, pull protoreflect.MethodDescriptor
	resource          protoreflect.MessageDescriptor
	updField          protoreflect.FieldDescriptor // field of the update request holding the resource
	changesField      protoreflect.FieldDescriptor // repeated changes in the pull response
	changeValue       protoreflect.FieldDescriptor // field of a change holding the resource
	changeName        protoreflect.FieldDescriptor
	uncovered         string
}

var (
	triplesOnce sync.Once
	triples     []triple
	notCovered  []string
)

func discoverTriples() {
	for _, me := range modelRegistry {
		var servers []struct {
			kind string
			mk   func() any
		}
		if me.NewServer != nil && me.NewModel != nil {
			me := me
			servers = append(servers, struct {
				kind string
				mk   func() any
			}{"ModelServer", func() any { return me.NewServer(me.NewModel()) }})
		}
		if me.NewMemory != nil {
			servers = append(servers, struct {
				kind string
				mk   func() any
			}{"MemoryDevice", me.NewMemory})
		}
		for _, s := range me.Skipped {
			notCovered = append(notCovered, me.Pkg+"."+s+" (constructor shape not understood)")
		}
		for _, sv := range servers {
			inst := sv.mk()
			found := false
			for _, e := range svcRegistry {
				if e.Pkg != me.Pkg || !e.IsServer(inst) {
					continue
				}
				d, err := protoregistry.GlobalFiles.FindDescriptorByName(protoreflect.FullName(e.Desc.ServiceName))
				if err != nil {
					notCovered = append(notCovered, fmt.Sprintf("%s.%s service %s: descriptor not found", me.Pkg, sv.kind, e.Desc.ServiceName))
					continue
				}
				sd := d.(protoreflect.ServiceDescriptor)
				ms := sd.Methods()
				for i := 0; i < ms.Len(); i++ {
					g := ms.Get(i)
					name := string(g.Name())
					if !strings.HasPrefix(name, "Get") || g.IsStreamingServer() {
						continue
					}
					x := strings.TrimPrefix(name, "Get")
					u, p := ms.ByName(protoreflect.Name("Update"+x)), ms.ByName(protoreflect.Name("Pull"+x))
					if u == nil || p == nil || !p.IsStreamingServer() || u.IsStreamingServer() {
						continue
					}
					tr := triple{entry: e, server: sv.mk, what: me.Pkg + "." + sv.kind, x: x, get: g, update: u, pull: p, resource: g.Output()}
					if u.Output().FullName() != tr.resource.FullName() {
						continue
					}
					uf := u.Input().Fields()
					for k := 0; k < uf.Len(); k++ {
						if f := uf.Get(k); f.Message() != nil && f.Message().FullName() == tr.resource.FullName() && !f.IsList() {
							tr.updField = f
						}
					}
					tr.changesField = p.Output().Fields().ByName("changes")
					if tr.changesField != nil && tr.changesField.Message() != nil {
						cf := tr.changesField.Message().Fields()
						tr.changeName = cf.ByName("name")
						for k := 0; k < cf.Len(); k++ {
							if f := cf.Get(k); f.Message() != nil && f.Message().FullName() == tr.resource.FullName() && !f.IsList() {
								tr.changeValue = f
							}
						}
					}
					extra := ""
					gf := g.Input().Fields()
					for k := 0; k < gf.Len(); k++ {
						if n := string(gf.Get(k).Name()); n != "name" && n != "read_mask" {
							extra = n
						}
					}
					if extra != "" {
						notCovered = append(notCovered, fmt.Sprintf("%s %s/%s: Get is addressed by %q as well (an item of a collection, not a single register)", tr.what, e.Desc.ServiceName, x, extra))
						found = true
						continue
					}
					if tr.updField == nil || tr.changesField == nil || tr.changeValue == nil || u.Input().Fields().ByName("name") == nil {
						notCovered = append(notCovered, fmt.Sprintf("%s %s/%s: request/response shape not understood", tr.what, e.Desc.ServiceName, x))
						continue
					}
					triples = append(triples, tr)
					found = true
				}
			}
			if !found {
				notCovered = append(notCovered, me.Pkg+"."+sv.kind+" (no Get/Update/Pull triple)")
			}
		}
	}
	sort.Strings(notCovered)
}

func newMsg(d protoreflect.MessageDescriptor) proto.Message {
	mt, err := protoregistry.GlobalTypes.FindMessageByName(d.FullName())
	if err != nil {
		panic(err)
	}
	return mt.New().Interface()
}

// projectTop is the independent projection used by the oracle: top-level paths only.
func projectTop(m proto.Message, paths []string) proto.Message {
	out := m.ProtoReflect().New()
	fds := m.ProtoReflect().Descriptor().Fields()
	for _, p := range paths {
		if fd := fds.ByName(protoreflect.Name(p)); fd != nil && m.ProtoReflect().Has(fd) {
			out.Set(fd, m.ProtoReflect().Get(fd))
		}
	}
	return proto.Clone(out.Interface())
}

// projectPaths is the independent projection for masks with paths one level down ("a.b"): a stays present if it was,
// holding only the requested sub-fields; for a repeated message field every element is projected; a plain "a" next to
// "a.b" keeps all of a.
func projectPaths(m proto.Message, paths []string) proto.Message {
	src := m.ProtoReflect()
	out := src.New()
	fds := src.Descriptor().Fields()
	whole := map[string]bool{}
	subs := map[string][]protoreflect.Name{}
	var order []string
	for _, p := range paths {
		top, sub, nestedPath := strings.Cut(p, ".")
		if !contains(order, top) {
			order = append(order, top)
		}
		if !nestedPath {
			whole[top] = true
		} else {
			subs[top] = append(subs[top], protoreflect.Name(sub))
		}
	}
	sub := func(v protoreflect.Message, names []protoreflect.Name) protoreflect.Message {
		o := v.New()
		for _, n := range names {
			if fd := v.Descriptor().Fields().ByName(n); fd != nil && v.Has(fd) {
				o.Set(fd, v.Get(fd))
			}
		}
		return o
	}
	for _, top := range order {
		fd := fds.ByName(protoreflect.Name(top))
		if fd == nil || !src.Has(fd) {
			continue
		}
		switch {
		case whole[top] || fd.Message() == nil || fd.IsMap():
			out.Set(fd, src.Get(fd))
		case fd.IsList():
			l := out.Mutable(fd).List()
			sl := src.Get(fd).List()
			for i := 0; i < sl.Len(); i++ {
				l.Append(protoreflect.ValueOfMessage(sub(sl.Get(i).Message(), subs[top])))
			}
		default:
			out.Set(fd, protoreflect.ValueOfMessage(sub(src.Get(fd).Message(), subs[top])))
		}
	}
	return proto.Clone(out.Interface())
}

// significantlyDifferent: differs in a non-float field, or by at least 1.0 in a float field (top level and one level down).
func significantlyDifferent(a, b protoreflect.Message, depth int) bool {
	fds := a.Descriptor().Fields()
	for i := 0; i < fds.Len(); i++ {
		fd := fds.Get(i)
		switch {
		case fd.IsList() || fd.IsMap():
			if !proto.Equal(projectTop(a.Interface(), []string{string(fd.Name())}), projectTop(b.Interface(), []string{string(fd.Name())})) {
				return true
			}
		case fd.Kind() == protoreflect.FloatKind || fd.Kind() == protoreflect.DoubleKind:
			if math.Abs(a.Get(fd).Float()-b.Get(fd).Float()) >= 1.0 {
				return true
			}
		case fd.Message() != nil:
			if a.Has(fd) != b.Has(fd) {
				return true
			}
			if a.Has(fd) && depth > 0 && significantlyDifferent(a.Get(fd).Message(), b.Get(fd).Message(), depth-1) {
				return true
			}
		default:
			if !a.Get(fd).Equal(b.Get(fd)) {
				return true
			}
		}
	}
	return false
}

// provision gives a freshly built server what it needs before Updates can mean anything: the electric model only
// switches to modes it knows, so an electric server is built with three (and a seeded id source), and Updates name
// one of them.
func provision(server any) (any, []string) {
	if _, ok := server.(*electricpb.ModelServer); ok {
		ids := []string{"m1", "m2", "m3"}
		var modes []*traits.ElectricMode
		for i, id := range ids {
			modes = append(modes, &traits.ElectricMode{Id: id, Title: fmt.Sprint("mode", i), Voltage: float32(200 + 10*i), Normal: i == 0})
		}
		m := electricpb.NewModel(electricpb.WithInitialMode(modes...), electricpb.WithRNG(rand.New(rand.NewSource(7))))
		return electricpb.NewModelServer(m), ids
	}
	return server, nil
}

// knownID puts one of the provisioned ids into an Update's message (when there are any and the message has an id).
func knownID(val proto.Message, ids []string, p *prng) {
	if len(ids) == 0 || p.n(4) == 0 {
		return
	}
	if fd := val.ProtoReflect().Descriptor().Fields().ByName("id"); fd != nil && fd.Kind() == protoreflect.StringKind && !fd.IsList() {
		val.ProtoReflect().Set(fd, protoreflect.ValueOfString(ids[p.n(len(ids))]))
	}
}

type stackStream struct {
	filtered    bool // the Pull request carried an option that lets the server leave values out
	stalled     bool // the reader stops reading after the first message (a legitimate, if unhelpful, client)
	updatesOnly bool
	cancel      context.CancelFunc
	mu          sync.Mutex
	got         []proto.Message // change messages
	err         error
	done        chan struct{}
}

func (s *stackStream) snapshot() []proto.Message {
	s.mu.Lock()
	defer s.mu.Unlock()
	return append([]proto.Message(nil), s.got...)
}

func stackRun(w *World, raceOnly bool) {
	triplesOnce.Do(discoverTriples)
	t := w.Tape
	if len(triples) == 0 {
		w.Violate("harness-discovery", "no Get/Update/Pull triple discovered", nil)
		return
	}
	w.SetCaseTotal(len(triples))
	tr := triples[t.Choose(len(triples))]
	caseName := fmt.Sprintf("%s %s/%s", tr.what, tr.entry.Desc.ServiceName, tr.x)
	w.SetCase(caseName)
	w.MarkNontrivial()
	w.Mix(caseName)
	w.SetMaxSteps(3000)
	// a stalled reader must not be able to make an RPC hang: let send timeouts (if any server has them) fire
	w.IdleAdvance, w.IdleAdvanceN = 6*time.Second, 30
	// the stack
	const dev = "dev1"
	// lazy: the device is not registered up front; the router's factory builds it (a fresh server per call) on first
	// use, and the first uses - an Update and a Pull from two clients - overlap
	lazy := !raceOnly && t.Flag(1, 5)
	var routerSrv any
	var knownIDs []string
	if lazy {
		nfac := 0
		routerSrv, _ = tr.entry.NewRouter(router.WithFactory(func(name string) (any, error) {
			nfac++
			w.Fault("factory-call")
			// the handler goroutine is a task while it is in here (parked once), so that two first uses can both be inside
			// the factory before either registers its device
			w.Adopt(fmt.Sprintf("factory%d", nfac), true).Done()
			fresh, ids := provision(tr.server())
			knownIDs = ids
			inner, _ := tr.entry.Wrap(fresh)
			return inner, nil
		}))
	} else {
		fresh, ids := provision(tr.server())
		knownIDs = ids
		inner, _ := tr.entry.Wrap(fresh)
		var r router.Router
		routerSrv, r = tr.entry.NewRouter()
		r.Add(dev, inner)
	}
	_, conn := tr.entry.Wrap(routerSrv)
	svc := tr.entry.Desc.ServiceName
	full := func(m protoreflect.MethodDescriptor) string { return "/" + svc + "/" + string(m.Name()) }
	p := &prng{s: uint64(1 + t.Choose(1<<20))}
	topFields := []string{}
	for i := 0; i < tr.resource.Fields().Len(); i++ {
		topFields = append(topFields, string(tr.resource.Fields().Get(i).Name()))
	}
	key := map[string]any{"server": tr.what, "x": tr.x}
	bad := func(class, msg string) { w.Violate(class, caseName+": "+msg, key) }

	doGet := func(mask []string, hasMask bool) (proto.Message, error) {
		req := newMsg(tr.get.Input())
		setName(req, dev)
		if hasMask {
			if f := req.ProtoReflect().Descriptor().Fields().ByName("read_mask"); f != nil {
				req.ProtoReflect().Set(f, protoreflect.ValueOfMessage((&fieldmaskpb.FieldMask{Paths: mask}).ProtoReflect()))
			}
		}
		resp := newMsg(tr.get.Output())
		err := conn.Invoke(context.Background(), full(tr.get), req, resp)
		return resp, err
	}
	var streams []*stackStream
	openPull := func(updatesOnly, stalled bool) *stackStream {
		ctx, cancel := context.WithCancel(context.Background())
		st := &stackStream{updatesOnly: updatesOnly, stalled: stalled, cancel: cancel, done: make(chan struct{})}
		req := newMsg(tr.pull.Input())
		// (whatever else a Pull request can say - flags like exclude_ramping - is sometimes set as well: such a stream
		// may legitimately leave values out, so it is not judged for what it delivers; what it must not do is get in the
		// way of the other clients)
		if pf := req.ProtoReflect().Descriptor().Fields(); p.n(4) == 0 {
			for i := 0; i < pf.Len(); i++ {
				if fd := pf.Get(i); fd.Kind() == protoreflect.BoolKind && !fd.IsList() && fd.Name() != "updates_only" && p.n(2) == 0 {
					req.ProtoReflect().Set(fd, protoreflect.ValueOfBool(true))
					st.filtered = true
				}
			}
		}
		setName(req, dev)
		if f := req.ProtoReflect().Descriptor().Fields().ByName("updates_only"); f != nil {
			req.ProtoReflect().Set(f, protoreflect.ValueOfBool(updatesOnly))
		} else if updatesOnly {
			st.updatesOnly = false
		}
		cs, err := conn.NewStream(ctx, &grpc.StreamDesc{ServerStreams: true}, full(tr.pull))
		if err != nil {
			st.err = err
			close(st.done)
			return st
		}
		if err := cs.SendMsg(req); err != nil {
			st.err = err
		}
		_ = cs.CloseSend()
		// keeping-up reader: never parked, always in Recv at quiescent points
		go func() {
			defer close(st.done)
			for {
				resp := newMsg(tr.pull.Output())
				if err := cs.RecvMsg(resp); err != nil {
					st.mu.Lock()
					st.err = err
					st.mu.Unlock()
					return
				}
				l := resp.ProtoReflect().Get(tr.changesField).List()
				st.mu.Lock()
				for i := 0; i < l.Len(); i++ {
					st.got = append(st.got, proto.Clone(l.Get(i).Message().Interface()))
				}
				st.mu.Unlock()
				if st.stalled {
					<-ctx.Done() // stop reading, keep the stream open
					return
				}
			}
		}()
		return st
	}
	nops := 1 + t.Choose(6)
	if raceOnly {
		nops = t.Choose(2)
	} else if t.Flag(1, 4) {
		nops = 8 + t.Choose(8) // long enough to fill every hand-off between a stalled reader and the resource
	}
	if lazy {
		// first uses, concurrently: client A updates, client B opens a stream (its reader keeps up)
		w.Go("first-update", false, func(task *Task) {
			req := newMsg(tr.update.Input())
			setName(req, dev)
			val := newMsg(tr.resource)
			fillMessage(val.ProtoReflect(), p, 2)
			knownID(val, knownIDs, p)
			req.ProtoReflect().Set(tr.updField, protoreflect.ValueOfMessage(val.ProtoReflect()))
			_ = conn.Invoke(context.Background(), full(tr.update), req, newMsg(tr.update.Output()))
		})
		w.Go("first-pull", false, func(task *Task) {
			streams = append(streams, openPull(false, false))
		})
		w.Run()
		if w.truncated {
			return
		}
		if w.Deadlocked || len(w.Unfinished(false)) > 0 {
			bad("rpc-stuck", "a first use of a lazily created device did not return: "+strings.Join(w.Unfinished(true), ","))
			return
		}
	}
	if !lazy && (raceOnly || t.Flag(1, 4)) {
		// a stream that is opened while an Update from another client is in progress: whichever way the two interleave
		// (the handler goroutines are scheduled too in lazy runs), once both have returned and everything has come to
		// rest the stream must have arrived at the value Get returns - through its seed or through the update
		var (
			resp proto.Message
			uerr error
			st   *stackStream
		)
		// (sometimes: a second Update from a third client, and an older stream that is closed in the middle of it all)
		var l0 *stackStream
		if raceOnly || t.Flag(1, 2) {
			l0 = openPull(false, false)
			w.wait()
			k := t.Choose(6)
			w.Go("race-close", false, func(task *Task) {
				for i := 0; i < k; i++ {
					task.Yield("later")
				}
				l0.cancel()
			})
		}
		nupd := 1 + t.Choose(2)
		if raceOnly && t.Flag(1, 2) {
			nupd = 2
		}
		for u := 0; u < nupd; u++ {
			req := newMsg(tr.update.Input())
			setName(req, dev)
			val := newMsg(tr.resource)
			fillMessage(val.ProtoReflect(), p, 2)
			knownID(val, knownIDs, p)
			req.ProtoReflect().Set(tr.updField, protoreflect.ValueOfMessage(val.ProtoReflect()))
			w.Go(fmt.Sprintf("race-update%d", u), false, func(task *Task) {
				r := newMsg(tr.update.Output())
				if err := conn.Invoke(context.Background(), full(tr.update), req, r); err != nil {
					uerr = err
				} else {
					resp = r
				}
			})
		}
		raceUpdatesOnly := t.Flag(1, 3)
		w.Go("race-pull", false, func(task *Task) { st = openPull(raceUpdatesOnly, false) })
		w.Go("race-judge", false, func(task *Task) {
			task.Settle("race")
			for k := 0; k < 3 && st == nil; k++ {
				task.Settle("race")
			}
			if st == nil || st.filtered {
				return // (nil: reported as stuck below)
			}
			st.mu.Lock()
			serr := st.err
			st.mu.Unlock()
			after, gerr := doGet(nil, false)
			if gerr != nil {
				bad("get-failed", fmt.Sprintf("Get failed: %v", gerr))
				return
			}
			if serr != nil {
				bad("pull-failed", fmt.Sprintf("Pull ended at once: %v", serr))
				return
			}
			got := st.snapshot()
			last := newMsg(tr.resource)
			if len(got) > 0 {
				last = got[len(got)-1].ProtoReflect().Get(tr.changeValue).Message().Interface()
			} else if st.updatesOnly {
				return // it was opened after the last publication: nothing is owed to it
			}
			// (an updates-only stream that has received anything has received everything published since, in commit
			// order: its last event is the value as well)
			task.Note("race: update error %v; Get %v; stream %v", uerr, after, got)
			if uerr == nil && significantlyDifferent(last.ProtoReflect(), after.ProtoReflect(), 1) && !equalModuloListOrder(last, after) {
				bad("update-not-streamed", fmt.Sprintf("a Pull was opened while Update -> %v was in progress; both have returned and the system is at rest: Get returns %v but the stream (reader in Recv) has received %v", resp, after, got))
			}
		})
		w.Run()
		if w.truncated {
			return
		}
		if w.Deadlocked || len(w.Unfinished(false)) > 0 {
			bad("rpc-stuck", "an Update and a Pull opened at the same time did not both return: "+strings.Join(w.Unfinished(true), ","))
			return
		}
		if st != nil {
			streams = append(streams, st)
		}
		w.Fault("race-open")
	}
	if t.Flag(1, 3) && len(topFields) > 0 {
		// a second client that keeps reading with read masks while the first one works: nothing it does may change what
		// the first client is entitled to see
		nbg := 2 + t.Choose(5)
		w.Go("bg-reader", true, func(task *Task) {
			for i := 0; i < nbg; i++ {
				task.Yield("bg-get")
				_, _ = doGet([]string{topFields[p.n(len(topFields))]}, true)
			}
		})
	}
	w.Go("client", false, func(task *Task) {
		task.NoPark(true)
		cur, err := doGet(nil, false)
		if err != nil {
			bad("get-failed", fmt.Sprintf("initial Get failed: %v", err))
			return
		}
		for i := 0; i < nops; i++ {
			task.Yield("rpc")
			switch t.Choose(6) {
			case 5: // let some time pass: servers with timer-driven behaviour (fades) get to take steps between the RPCs
				task.Sleep([]time.Duration{30 * time.Millisecond, 70 * time.Millisecond, 150 * time.Millisecond, time.Second}[t.Choose(4)])
				task.Settle("after-pause")
				if c, err := doGet(nil, false); err == nil {
					cur = c
				}
				w.Fault("pause")
			case 0: // Get with a read mask
				k := 1 + p.n(len(topFields))
				var mask []string
				for j := 0; j < k; j++ {
					f := topFields[p.n(len(topFields))]
					if !contains(mask, f) {
						mask = append(mask, f)
					}
				}
				nested := t.Flag(1, 3)
				if nested {
					// top-level fields and paths one level down into message fields; a field together with one of its own
					// sub-paths is left out (what that combination selects is a question about masks, not about this stack)
					var nm []string
					for _, x := range randomPaths(tr.resource, p) {
						top, _, isSub := strings.Cut(x, ".")
						clash := false
						for _, y := range nm {
							ytop, _, ySub := strings.Cut(y, ".")
							if ytop == top && (isSub != ySub) {
								clash = true
							}
						}
						if !clash {
							nm = append(nm, x)
						}
					}
					mask = nm
				}
				got, err := doGet(mask, true)
				fullv, err2 := doGet(nil, false)
				if nested && err != nil && err2 == nil {
					task.Note("get nested mask %v rejected: %v", mask, status.Code(err))
					continue // whether a path through this kind of field is acceptable is not this property's business
				}
				if err != nil || err2 != nil {
					bad("get-failed", fmt.Sprintf("Get(mask %v) -> %v, Get -> %v", mask, err, err2))
					return
				}
				if !proto.Equal(fullv, cur) {
					bad("read-changed-state", fmt.Sprintf("nothing was written, but after a Get with read mask %v the full Get changed from %v to %v", mask, cur, fullv))
					return
				}
				if want := projectPaths(fullv, mask); !proto.Equal(got, want) {
					bad("read-mask", fmt.Sprintf("Get with read mask %v returned %v, the projection of the full Get %v is %v", mask, got, fullv, want))
					return
				}
				task.Note("get mask %v ok", mask)
			case 1: // open a stream
				if len(streams) >= 2 {
					continue
				}
				st := openPull(t.Flag(1, 3), t.Flag(1, 4))
				if st.stalled {
					w.Fault("stall")
				}
				streams = append(streams, st)
				task.Settle("after-open")
				first := st.snapshot()
				st.mu.Lock()
				serr := st.err
				st.mu.Unlock()
				if serr != nil {
					bad("pull-failed", fmt.Sprintf("Pull ended at once: %v", serr))
					return
				}
				// (opening a stream is a read, whatever options it carries)
				if after, gerr := doGet(nil, false); gerr == nil && !proto.Equal(after, cur) {
					bad("read-changed-state", fmt.Sprintf("nothing was written, but after a new Pull was opened (extra options: %v) Get changed from %v to %v", st.filtered, cur, after))
					return
				}
				if st.filtered {
					task.Note("pull opened with extra options")
					continue
				}
				if !st.updatesOnly {
					if len(first) == 0 {
						// a resource whose current value is the empty message (e.g. an empty collection behind it) has
						// nothing to start with; anything else must be delivered first
						if proto.Size(cur) != 0 {
							bad("pull-no-seed", fmt.Sprintf("a new Pull (not updates-only) delivered nothing although Get returns %v", cur))
							return
						}
					} else if v := first[len(first)-1].ProtoReflect().Get(tr.changeValue).Message().Interface(); !proto.Equal(v, cur) && equalModuloListOrder(v, cur) {
						bad("stream-order-differs", fmt.Sprintf("a new Pull started with %v, Get returns the same elements in a different order: %v", v, cur))
						return
					} else if !proto.Equal(v, cur) {
						bad("pull-seed", fmt.Sprintf("a new Pull started with %v, Get returns %v", v, cur))
						return
					}
				} else if len(first) != 0 {
					bad("pull-seed", fmt.Sprintf("an updates-only Pull delivered %v before any update", first))
					return
				}
				task.Note("pull opened updatesOnly=%v", st.updatesOnly)
			default: // Update
				req := newMsg(tr.update.Input())
				setName(req, dev)
				val := newMsg(tr.resource)
				fillMessage(val.ProtoReflect(), p, 2)
				knownID(val, knownIDs, p)
				req.ProtoReflect().Set(tr.updField, protoreflect.ValueOfMessage(val.ProtoReflect()))
				maskKind := t.Choose(4)
				if f := req.ProtoReflect().Descriptor().Fields().ByName("update_mask"); f != nil && maskKind > 0 {
					var paths []string
					switch maskKind {
					case 1, 2:
						for j := 1 + p.n(2); j > 0; j-- {
							x := topFields[p.n(len(topFields))]
							if !contains(paths, x) {
								paths = append(paths, x)
							}
						}
					case 3:
						paths = []string{"no_such_field"}
					}
					req.ProtoReflect().Set(f, protoreflect.ValueOfMessage((&fieldmaskpb.FieldMask{Paths: paths}).ProtoReflect()))
				}
				before := make([]int, len(streams))
				for si, st := range streams {
					before[si] = len(st.snapshot())
				}
				resp := newMsg(tr.update.Output())
				err := conn.Invoke(context.Background(), full(tr.update), req, resp)
				task.Settle("after-update")
				after, gerr := doGet(nil, false)
				if gerr != nil {
					bad("get-failed", fmt.Sprintf("Get after Update failed: %v", gerr))
					return
				}
				if err != nil {
					if status.Code(err) == codes.Unimplemented {
						bad("unrouted", fmt.Sprintf("Update answered %v through the stack", err))
						return
					}
					if !proto.Equal(after, cur) {
						bad("rejected-update-changed-state", fmt.Sprintf("Update(%v) was rejected with %v but Get changed from %v to %v", req, err, cur, after))
						return
					}
					task.Note("update rejected %v", status.Code(err))
					continue
				}
				if !proto.Equal(after, resp) {
					bad("read-your-write", fmt.Sprintf("Update(%v) returned %v but the next Get returns %v", req, resp, after))
					return
				}
				if significantlyDifferent(cur.ProtoReflect(), resp.ProtoReflect(), 1) {
					for si, st := range streams {
						if st.stalled || st.filtered {
							continue // only readers that keep up (and asked for everything) are owed every update
						}
						news := st.snapshot()[before[si]:]
						ok := false
						for _, c := range news {
							v := c.ProtoReflect().Get(tr.changeValue).Message().Interface()
							if proto.Equal(v, resp) {
								ok = true
								if tr.changeName != nil && c.ProtoReflect().Get(tr.changeName).String() != dev {
									bad("pull-name", fmt.Sprintf("change carries name %q, the Pull request named %q", c.ProtoReflect().Get(tr.changeName).String(), dev))
									return
								}
							}
						}
						if !ok {
							for _, c := range news {
								if equalModuloListOrder(c.ProtoReflect().Get(tr.changeValue).Message().Interface(), resp) {
									bad("stream-order-differs", fmt.Sprintf("Update returned %v, open stream %d delivered the same elements in a different order: %v", resp, si, news))
									return
								}
							}
							bad("update-not-streamed", fmt.Sprintf("Update changed the value from %v to %v but open stream %d (reader in Recv) received %v", cur, resp, si, news))
							return
						}
					}
				}
				cur = after
				task.Note("update ok")
			}
		}
	})
	w.Run()
	if !w.truncated && (w.Deadlocked || len(w.Unfinished(false)) > 0) {
		bad("rpc-stuck", "an RPC through the stack did not return: "+strings.Join(w.Unfinished(true), ","))
	}
	for _, st := range streams {
		st.cancel()
	}
	// let timer driven servers (tweens) run out, then everything must unwind
	w.Advance(3 * time.Minute)
	w.Run()
}

// equalModuloListOrder compares two messages ignoring the order of their top-level repeated fields.
func equalModuloListOrder(a, b proto.Message) bool {
	canon := func(m proto.Message) proto.Message {
		c := proto.Clone(m)
		r := c.ProtoReflect()
		r.Range(func(fd protoreflect.FieldDescriptor, v protoreflect.Value) bool {
			if !fd.IsList() || fd.Message() == nil {
				return true
			}
			l := v.List()
			type el struct {
				key string
				v   protoreflect.Value
			}
			var els []el
			for i := 0; i < l.Len(); i++ {
				bs, _ := proto.MarshalOptions{Deterministic: true}.Marshal(l.Get(i).Message().Interface())
				els = append(els, el{string(bs), protoreflect.ValueOfMessage(proto.Clone(l.Get(i).Message().Interface()).ProtoReflect())})
			}
			sort.Slice(els, func(i, j int) bool { return els[i].key < els[j].key })
			nl := r.NewField(fd).List()
			for _, e := range els {
				nl.Append(e.v)
			}
			r.Set(fd, protoreflect.ValueOfList(nl))
			return true
		})
		return c
	}
	return proto.Equal(canon(a), canon(b))
}
