package verifsim

import (
	"context"
	"fmt"
	"github.com/smart-core-os/sc-api/go/types"
	"strings"
	"time"

	"google.golang.org/grpc/codes"

	"github.com/smart-core-os/sc-golang/internal/minibus"
)

// C10 — subscriptions and the event bus shut down cleanly under any timing (DESIGN.md §5 C10).

func init() {
	register(&Scenario{Name: "shut-bus", Prop: "C10", Faulty: true, Doc: "internal/minibus directly: 1-3 sender tasks, 0-8 listeners with consumer tasks (some abandon), canceller tasks placed by the scheduler at any step incl. inside Send/Listen windows; exactly-once for listeners live for the whole send, per-sender order, no stalled sender, no panic, no leaked goroutine",
		Run:  shutBusRun,
		Real: []string{"internal/minibus Bus/listener"}, Stub: []string{"sender/consumer/canceller tasks"}})
	register(&Scenario{Name: "shut-res", Prop: "C10", Faulty: true, Doc: "Value/Collection with 0-3 writers and 1-5 Pull/PullID subscriptions with mixed options; consumers keep receiving or abandon; cancellers placed anywhere; after cancel the channel is closed at the next receive, writers are not stalled, PullID ends on removal, surviving subscribers still converge, nothing leaks",
		Run:  shutResRun,
		Real: []string{"pkg/resource Value/Collection Pull/PullID", "internal/minibus", "DropExcess", "mergeCollectionExcess"}, Stub: []string{"writer/consumer/canceller tasks"}})
}

type busEvent struct{ sender, seq int }

type busListener struct {
	idx         int
	ctx         context.Context
	cancel      context.CancelFunc
	ch          <-chan any
	listenRet   int64
	cancelStep  int64 // 0 = never cancelled (before shutdown)
	abandonStep int64 // 0 = never abandoned
	stopAfter   int
	got         []busEvent
	gotStep     []int64
	closed      bool
}

type busSend struct {
	ev       busEvent
	inv, ret int64
	ok       bool
}

func shutBusRun(w *World) {
	t := w.Tape
	var bus minibus.Bus
	nl := t.Choose(9)
	ns := 1 + t.Choose(3)
	listeners := make([]*busListener, nl)
	for i := range listeners {
		ctx, cancel := context.WithCancel(context.Background())
		l := &busListener{idx: i, ctx: ctx, cancel: cancel}
		if t.Flag(1, 4) {
			l.stopAfter = 1 + t.Choose(3)
		}
		listeners[i] = l
	}
	for _, l := range listeners {
		l := l
		w.Go(fmt.Sprintf("l%d", l.idx), true, func(t *Task) {
			l.ch = bus.Listen(l.ctx)
			l.listenRet = w.Step()
			for {
				if l.stopAfter > 0 && len(l.got) >= l.stopAfter {
					l.abandonStep = w.Step()
					w.Fault("abandon")
					t.Yield("abandon")
					<-l.ctx.Done()
					// after the cancel the channel must be closed, never deliver anything more
					t.Yield("recv-after-cancel")
					// (a Send that was under way at the time of the cancel may still get through: judged below)
					for i := 0; i < 8; i++ {
						v, ok := <-l.ch
						if !ok {
							break
						}
						l.got = append(l.got, v.(busEvent))
						l.gotStep = append(l.gotStep, w.Step()+2)
					}
					l.closed = true
					return
				}
				t.Yield("recv")
				v, ok := <-l.ch
				if !ok {
					l.closed = true
					return
				}
				l.got = append(l.got, v.(busEvent))
				l.gotStep = append(l.gotStep, w.Step())
			}
		})
	}
	// cancellers: every abandoning listener gets one (otherwise senders would legitimately block forever), others maybe
	for _, l := range listeners {
		l := l
		if l.stopAfter > 0 || t.Flag(1, 3) {
			w.Go(fmt.Sprintf("c%d", l.idx), false, func(t *Task) {
				k := t.W.Tape.Choose(6)
				for i := 0; i < k; i++ {
					t.Yield("wait")
				}
				t.Yield("cancel")
				l.cancelStep = w.Step()
				w.Fault("cancel")
				l.cancel()
			})
		}
	}
	sends := make([][]*busSend, ns)
	for s := 0; s < ns; s++ {
		s := s
		n := 1 + t.Choose(4)
		w.Go(fmt.Sprintf("p%d", s), false, func(t *Task) {
			for k := 0; k < n; k++ {
				t.Yield("send")
				bs := &busSend{ev: busEvent{s, k}, inv: w.Step()}
				bs.ok = bus.Send(context.Background(), bs.ev)
				bs.ret = w.Step()
				sends[s] = append(sends[s], bs)
			}
		})
	}
	w.Run()
	if w.truncated {
		for _, l := range listeners {
			l.cancel()
		}
		w.Run()
		return
	}
	if w.Deadlocked || len(w.Unfinished(false)) > 0 {
		w.Violate("sender-stalled", "senders or cancellers did not finish although every abandoned listener was cancelled: "+strings.Join(w.Unfinished(true), ","), nil)
	}
	for _, l := range listeners {
		w.Note("l%d listen@%d cancel@%d abandon@%d got=%v", l.idx, l.listenRet, l.cancelStep, l.abandonStep, l.got)
		// duplicates and per-sender order
		last := map[int]int{}
		for _, e := range l.got {
			if p, ok := last[e.sender]; ok && e.seq <= p {
				w.Violate("order-or-duplicate", fmt.Sprintf("listener %d received %v after seq %d of the same sender: %v", l.idx, e, p, l.got), nil)
			}
			last[e.sender] = e.seq
		}
		for i, e := range l.got {
			if l.cancelStep == 0 || l.gotStep[i] <= l.cancelStep+1 || w.LazyGoroutines() {
				// (with lazily scheduled library goroutines the listener's own shutdown - a goroutine waiting for the
				// context - may not have run yet when a later Send starts: the channel is still open, delivery is fine)
				continue
			}
			// Received well after the cancel. A Send that was already under way when the context was cancelled may still
			// deliver (the channel is only closed once that Send has let go of the listener); a Send that was invoked
			// after the cancel had completed must find the listener gone.
			for _, bs := range sends[e.sender] {
				if bs.ev == e && bs.inv > l.cancelStep {
					w.Violate("delivery-after-cancel", fmt.Sprintf("listener %d received %v at step %d from a Send invoked at step %d; its context was cancelled at step %d", l.idx, e, l.gotStep[i], bs.inv, l.cancelStep), nil)
				}
			}
		}
		if l.listenRet == 0 {
			continue
		}
		for s := range sends {
			for _, bs := range sends[s] {
				if !bs.ok {
					w.Violate("send-failed", fmt.Sprintf("Send(%v) with a background context returned false", bs.ev), nil)
				}
				live := l.listenRet < bs.inv && (l.cancelStep == 0 || l.cancelStep > bs.ret) && (l.abandonStep == 0 || l.abandonStep > bs.ret)
				if !live {
					continue
				}
				n := 0
				for _, e := range l.got {
					if e == bs.ev {
						n++
					}
				}
				if n != 1 {
					w.Violate("not-exactly-once", fmt.Sprintf("listener %d (listening since step %d, cancel@%d, abandon@%d) was live for the whole Send(%v) [%d,%d] but received it %d times: %v",
						l.idx, l.listenRet, l.cancelStep, l.abandonStep, bs.ev, bs.inv, bs.ret, n, l.got), map[string]any{"count": n})
				}
			}
		}
	}
	for _, l := range listeners {
		l.cancel()
	}
	w.Run()
	for _, l := range listeners {
		if l.listenRet != 0 && !l.closed {
			w.Violate("not-closed", fmt.Sprintf("listener %d: channel not closed after cancel", l.idx), nil)
		}
	}
}

// ---- resource level -------------------------------------------------------------------------------------------------

type shutSub struct {
	*subscriber
	cancelStep     int64
	strict         bool // the cancel happened after the subscription had completely started up
	afterCancelBad string
	late           []int // indices of events received well after the cancel
	finished       bool
}

func shutResRun(w *World) {
	t := w.Tape
	coll := t.Flag(2, 3)
	g := &opGen{tape: t, coll: coll, ids: []string{"a", "b"}}
	var cfg resCfg
	g.initial(&cfg)
	r := newRealRes(cfg, &simClock{}, &simRNG{})
	nw := t.Choose(4)
	var writers []*writer
	for i := 0; i < nw; i++ {
		wr := &writer{name: fmt.Sprintf("w%d", i)}
		n := 1 + t.Choose(4)
		for j := 0; j < n; j++ {
			wr.ops = append(wr.ops, g.writeOp())
		}
		writers = append(writers, wr)
	}
	ns := 1 + t.Choose(5)
	var subs []*shutSub
	for i := 0; i < ns; i++ {
		ctx, cancel := context.WithCancel(context.Background())
		s := &shutSub{subscriber: &subscriber{name: fmt.Sprintf("s%d", i), cfg: g.subCfg(true), ctx: ctx, cancel: cancel}}
		if t.Flag(1, 3) {
			s.stopAfter = 1 + t.Choose(3)
		}
		if !s.cfg.Backpressure && t.Flag(1, 4) {
			s.lag = []time.Duration{100 * time.Millisecond, time.Second}[t.Choose(2)]
		}
		subs = append(subs, s)
	}
	for _, s := range subs {
		s := s
		w.Go(s.name, true, func(t *Task) {
			defer func() { s.finished = true }()
			s.pullInvoked = w.Step()
			s.open(r)
			s.pullReturn = w.Step()
			if s.cfg.UsePullID {
				t.Yield("opened") // let the inner subscription start up before the first receive or cancel
			}
			if s.lag > 0 {
				t.Sleep(s.lag) // a slow (lossy) consumer: comes for its first event when everybody else is at rest or blocked
			}
			for {
				if s.stopAfter > 0 && len(s.events) >= s.stopAfter {
					s.abandoned = true
					w.Fault("abandon")
					t.Yield("abandon")
					<-s.ctx.Done()
					// the bubble is quiescent again when we are released: the channel must now be closed
					t.Yield("recv-after-cancel")
					// (a write that was under way at the time of the cancel may still get through: judged at the end)
					for i := 0; i < 5 && s.recv(w); i++ {
						if s.strict {
							s.late = append(s.late, len(s.events)-1)
						}
					}
					return
				}
				t.Yield("recv")
				if !s.recv(w) {
					return
				}
				if s.cancelStep != 0 && s.strict && w.Step() > s.cancelStep+1 {
					s.late = append(s.late, len(s.events)-1) // judged at the end, against the writers' histories
				}
			}
		})
	}
	for _, s := range subs {
		s := s
		// every abandoning backpressured subscriber is cancelled eventually, so that writers may finish
		if s.stopAfter > 0 || t.Flag(1, 3) {
			w.Go("c"+s.name, false, func(t *Task) {
				k := t.W.Tape.Choose(8)
				for i := 0; i < k; i++ {
					t.Yield("wait")
				}
				if s.stopAfter > 0 && t.W.Tape.Flag(1, 4) {
					// nobody notices for a while that the consumer has gone: long enough for a write that waits for its
					// delivery to give up (a Value write does after five seconds), after which writing must go on as before
					w.Fault("slow-cancel")
					t.Sleep(6 * time.Second)
				}
				// Cancel at any moment from the start of the Pull call on. A PullID whose context is already cancelled while
				// its inner subscription starts up makes the library choose randomly (select with two ready cases) whether
				// the seed is still delivered; both outcomes satisfy the property, but the run would not replay, so the
				// canceller waits until PullID has started up.
				for n := 0; n < 40 && (s.pullInvoked == 0 || (s.cfg.UsePullID && (s.pullReturn == 0 || w.AutoPending()))); n++ {
					t.Yield("wait-open")
				}
				t.Yield("cancel")
				// "closed at the next receive" is only decidable when the subscription had completely started up before
				// the cancel; otherwise the library may still hand over the seed (random select), and only eventual closure
				// is required
				s.strict = s.pullReturn != 0 && !(s.cfg.UsePullID && w.AutoPending())
				s.cancelStep = w.Step()
				w.Fault("cancel")
				s.cancel()
			})
		}
	}
	for _, wr := range writers {
		wr := wr
		w.Go(wr.name, false, func(t *Task) { wr.run(t, r) })
	}
	// Collection sends never time out; Value sends do after 5 s: let fake time advance when everything is stuck, so that
	// a Value writer blocked on an abandoned (not yet cancelled) subscriber can make progress the documented way.
	if !coll {
		w.IdleAdvance, w.IdleAdvanceN = 6e9, 40
	}
	w.Run()
	if w.truncated {
		for _, s := range subs {
			s.cancel()
		}
		w.Run()
		return
	}
	if w.Deadlocked || len(w.Unfinished(false)) > 0 {
		w.Violate("writer-stalled", "writers or cancellers did not finish although every abandoned subscriber was cancelled: "+strings.Join(w.Unfinished(true), ","),
			map[string]any{"resource": resName(coll)})
	} else {
		// surviving, still receiving subscribers must have converged (C03 oracle, simplified: full view only)
		w.Go("oracle", false, func(t *Task) {
			store := map[string]mm{}
			var val wres
			if coll {
				for _, id := range []string{"a", "b"} {
					if g := r.apply(wop{Kind: opGet, ID: id}); g.Found {
						store[id] = g.Msg
					}
				}
			} else {
				val = r.apply(wop{Kind: opGet})
			}
			removed := map[string]bool{}
			for _, wr := range writers {
				for _, h := range wr.hist {
					if h.Op.Kind == opDelete && h.Res.Code == codes.OK && h.Res.HasMsg {
						removed[h.Op.ID] = true
					}
				}
			}
			for _, s := range subs {
				t.Note("%s[%s] cancel@%d abandoned=%v closed=%v: %s", s.name, s.cfg, s.cancelStep, s.abandoned, s.closed, eventsString(s.events))
				// An event received well after the cancel is fine when the write that caused it was already under way at the
				// time of the cancel (its delivery was in flight); a write invoked after the cancel had completed must not
				// reach the subscriber any more.
				for _, i := range s.late {
					if w.LazyGoroutines() {
						break // the subscription's shutdown is asynchronous; until it has run, deliveries are legitimate
					}
					e := s.events[i]
					for _, wr := range writers {
						for _, h := range wr.hist {
							if h.Res.Code != codes.OK || !h.Res.HasMsg || h.Inv <= s.cancelStep {
								continue
							}
							caused := false
							if h.Op.Kind == opDelete {
								caused = e.Type == types.ChangeType_REMOVE && e.ID == h.Op.ID && e.HasOld && e.Old.V == h.Res.Msg.V
							} else {
								caused = e.HasNew && e.New.V == h.Res.Msg.V
							}
							if caused && s.afterCancelBad == "" {
								s.afterCancelBad = fmt.Sprintf("received %s at step %d, caused by %s; cancelled at step %d", e, e.Step, h, s.cancelStep)
							}
						}
					}
				}
				if s.afterCancelBad != "" {
					w.Violate("delivery-after-cancel", s.name+" ["+s.cfg.String()+"]: "+s.afterCancelBad, map[string]any{"resource": resName(coll)})
				}
				if s.cancelStep != 0 {
					if !s.finished {
						w.Violate("not-closed", fmt.Sprintf("%s [%s]: cancelled at step %d, the channel was still open at the next quiescent point", s.name, s.cfg, s.cancelStep), map[string]any{"resource": resName(coll)})
					}
					continue
				}
				if s.abandoned || !s.opened {
					continue
				}
				if s.cfg.UsePullID {
					// ends when its item is removed: only decidable when the removal was certainly seen by this subscription
					if s.closed {
						continue
					}
					certain := false
					for _, wr := range writers {
						for _, h := range wr.hist {
							if h.Op.Kind == opDelete && h.Op.ID == s.cfg.PullID && h.Res.Code == codes.OK && h.Res.HasMsg {
								// PullID subscribes asynchronously, so "after the subscription was open" is judged by what the
								// stream itself shows: it delivered the very version that was later removed
								for _, e := range s.events {
									if e.HasNew && e.New.V == h.Res.Msg.V {
										certain = true
									}
								}
							}
						}
					}
					if !s.cfg.Backpressure {
						// Without backpressure a remove followed by an add is merged into a replace and the stream
						// legitimately continues, so single removals prove nothing; but a stream that has delivered the item
						// and is still open at rest when the item is gone has missed its end
						_, present := store[s.cfg.PullID]
						certain = !present
					}
					if certain && len(s.events) > 0 {
						w.Violate("pullid-not-closed", fmt.Sprintf("%s: item %q was removed after the subscription was open but the stream did not end; events: %s", s.name, s.cfg.PullID, eventsString(s.events)), nil)
					}
					continue
				}
				if s.cfg.UpdatesOnly || s.closed {
					continue
				}
				proj := func(m mm) mm { return m.project(s.cfg.RMask, !s.cfg.RMaskSet) }
				if coll {
					view := foldColl(s.events)
					want := map[string]mm{}
					for id, v := range store {
						want[id] = proj(v)
					}
					if viewString(view) != viewString(want) {
						w.Violate("survivor-diverged", fmt.Sprintf("%s [%s] (never cancelled, keeps receiving) view {%s} store {%s}; events: %s", s.name, s.cfg, viewString(view), viewString(want), eventsString(s.events)),
							map[string]any{"resource": "collection"})
					}
				} else if val.HasMsg {
					if len(s.events) == 0 || s.events[len(s.events)-1].New != proj(val.Msg) {
						w.Violate("survivor-diverged", fmt.Sprintf("%s [%s] (never cancelled, keeps receiving) last event differs from the value %s; events: %s", s.name, s.cfg, val.Msg, eventsString(s.events)),
							map[string]any{"resource": "value"})
					}
				}
			}
		})
		w.Run()
	}
	for _, s := range subs {
		s.cancel()
	}
	w.Run()
	for _, s := range subs {
		if s.opened && !s.finished && !w.truncated && !w.Deadlocked {
			w.Violate("not-closed", fmt.Sprintf("%s [%s]: channel still open after its context was cancelled", s.name, s.cfg), map[string]any{"resource": resName(coll)})
		}
	}
}
