package verifsim

import (
	"context"
	"errors"
	"fmt"
	"strings"

	"google.golang.org/grpc"
	"google.golang.org/grpc/metadata"

	"github.com/smart-core-os/sc-api/go/traits"
	"github.com/smart-core-os/sc-golang/pkg/group"
	"github.com/smart-core-os/sc-golang/pkg/trait/lightpb"
	"github.com/smart-core-os/sc-golang/pkg/trait/onoffpb"
)

// C17 where the library itself supplies the members: the trait groups (onoffpb.Group, lightpb.Group) run one Pull per
// member device through group.Execute and merge what the members deliver into one stream. When that stream ends - its
// Send fails, or its context is cancelled - the call must return and nothing it started may be left behind.

func init() {
	register(&Scenario{Name: "group-traits", Prop: "C17", Faulty: true, Doc: "onoffpb.Group / lightpb.Group over 2-3 member devices (model servers behind a router, reached through the wrapped client) with every read strategy; a Pull through the group into a stream whose Send is slow and fails at a tape-chosen point or whose context is cancelled, while a writer changes the members; the Pull must return and leave no goroutine",
		Run:  groupTraitsRun,
		Real: []string{"pkg/trait/onoffpb Group, lightpb Group", "pkg/group", "model servers, routers, wrappers"}, Stub: []string{"server stream (slow / failing Send)", "writer and canceller tasks"}})
	// the same workload judged for C10: a group subscription whose stream fails or is cancelled unwinds completely
	// (the call returns, every goroutine started for it - members, forwarders, the streams to the members - ends)
	register(&Scenario{Name: "shut-groups", Prop: "C10", Faulty: true, Doc: "the group-traits workload (onoffpb.Group / lightpb.Group Pulls whose stream fails or is cancelled at any moment while the members change) judged for shutdown: the Pull returns and nothing is left running",
		Run:  groupTraitsRun,
		Real: []string{"pkg/trait/onoffpb Group, lightpb Group", "pkg/group", "model servers, routers, wrappers"}, Stub: []string{"server stream (slow / failing Send)", "writer and canceller tasks"}})
}

// slowStream is the server side of the group's Pull: Send takes a scheduling step and fails from the failAt-th call on.
type slowStream struct {
	grpc.ServerStream
	ctx    context.Context
	task   func() *Task
	failAt int
	n      int
	w      *World
}

func (s *slowStream) Context() context.Context     { return s.ctx }
func (s *slowStream) SetHeader(metadata.MD) error  { return nil }
func (s *slowStream) SendHeader(metadata.MD) error { return nil }
func (s *slowStream) SetTrailer(metadata.MD)       {}
func (s *slowStream) send() error {
	s.n++
	if t := s.task(); t != nil {
		t.Yield("stream-send")
	}
	if s.failAt > 0 && s.n >= s.failAt {
		s.w.Fault("send-err")
		return errors.New("stream broken")
	}
	return s.ctx.Err()
}

type onoffStream struct{ *slowStream }

func (s onoffStream) Send(*traits.PullOnOffResponse) error { return s.send() }

type lightStream struct{ *slowStream }

func (s lightStream) Send(*traits.PullBrightnessResponse) error { return s.send() }

func groupTraitsRun(w *World) {
	t := w.Tape
	light := t.Flag(1, 2)
	n := 2 + t.Choose(2)
	strat := []group.ExecutionStrategy{group.ExecutionStrategyAll, group.ExecutionStrategyMost, group.ExecutionStrategyAny, group.ExecutionStrategyOne,
		group.ExecutionStrategyFast, group.ExecutionStrategyRace}[t.Choose(6)]
	names := []string{"d0", "d1", "d2"}[:n]
	ctx, cancel := context.WithCancel(context.Background())
	var pullTask *Task
	ss := &slowStream{ctx: ctx, failAt: t.Choose(4), w: w, task: func() *Task { return pullTask }}
	var pull func() error
	var write func(i int, v int)
	if light {
		r := lightpb.NewApiRouter()
		var models []*lightpb.Model
		for _, nm := range names {
			m := lightpb.NewModel()
			models = append(models, m)
			r.Add(nm, lightpb.WrapApi(lightpb.NewModelServer(m)))
		}
		g := lightpb.NewGroup(lightpb.WrapApi(r), names...)
		g.ReadExecution = strat
		pull = func() error { return g.PullBrightness(&traits.PullBrightnessRequest{Name: "all"}, lightStream{ss}) }
		write = func(i, v int) { _, _ = models[i].UpdateBrightness(&traits.Brightness{LevelPercent: float32(v)}) }
	} else {
		r := onoffpb.NewApiRouter()
		var models []*onoffpb.Model
		for _, nm := range names {
			m := onoffpb.NewModel()
			models = append(models, m)
			r.Add(nm, onoffpb.WrapApi(onoffpb.NewModelServer(m)))
		}
		g := onoffpb.NewGroup(onoffpb.WrapApi(r), names...)
		g.ReadExecution = strat
		pull = func() error { return g.PullOnOff(&traits.PullOnOffRequest{Name: "all"}, onoffStream{ss}) }
		write = func(i, v int) {
			st := traits.OnOff_ON
			if v%2 == 0 {
				st = traits.OnOff_OFF
			}
			_, _ = models[i].UpdateOnOff(&traits.OnOff{State: st})
		}
	}
	w.MarkNontrivial()
	w.Mix(fmt.Sprint(light, n, strat, ss.failAt))
	returned := false
	pullTask = w.Go("pull", false, func(task *Task) {
		_ = pull()
		returned = true
	})
	nops := 1 + t.Choose(5)
	w.Go("w", false, func(task *Task) {
		for i := 0; i < nops; i++ {
			task.Yield("op")
			write(t.Choose(n), 1+i*7)
		}
	})
	k := t.Choose(10)
	w.Go("canceller", false, func(task *Task) {
		for i := 0; i < k; i++ {
			task.Yield("wait")
		}
		task.Yield("cancel")
		w.Fault("cancel")
		cancel()
	})
	w.Run()
	cancel()
	w.Run()
	if w.truncated {
		return
	}
	what := "onoffpb"
	if light {
		what = "lightpb"
	}
	if !returned || w.Deadlocked {
		w.Violate("pull-stuck", fmt.Sprintf("%s.Group Pull (strategy %v, %d members, Send failing from call %d) did not return although its stream's context was cancelled: %s", what, strat, n, ss.failAt, strings.Join(w.Unfinished(true), ",")),
			map[string]any{"group": what})
	}
	// goroutines left behind are reported by the kernel's leak check at the end of the bubble
}
