package verifsim

import (
	"context"
	"fmt"
	"reflect"
	"sort"
	"strings"
	"sync"
	"time"

	"google.golang.org/grpc/codes"
	"google.golang.org/grpc/status"
	"google.golang.org/protobuf/proto"
	"google.golang.org/protobuf/reflect/protoreflect"
	"google.golang.org/protobuf/types/known/fieldmaskpb"

	"google.golang.org/protobuf/types/known/timestamppb"

	"github.com/smart-core-os/sc-api/go/traits"
	"github.com/smart-core-os/sc-golang/internal/testproto"
	"github.com/smart-core-os/sc-golang/pkg/resource"
	"github.com/smart-core-os/sc-golang/pkg/trait"
	"github.com/smart-core-os/sc-golang/pkg/trait/enterleavesensorpb"
	"github.com/smart-core-os/sc-golang/pkg/trait/hailpb"
	"github.com/smart-core-os/sc-golang/pkg/trait/metadatapb"
	"github.com/smart-core-os/sc-golang/pkg/trait/openclosepb"
	"github.com/smart-core-os/sc-golang/pkg/trait/parentpb"
)

// C07 — messages are isolated: no aliasing between callers and stored state (DESIGN.md §5 C07).
//
// Every message that crosses the API boundary is recorded together with a deep copy taken at that instant and compared
// again after every later operation; other parties (slow consumers, earlier callers) keep holding what they were given
// while the system moves on.

func init() {
	register(&Scenario{Name: "alias-res", Prop: "C07", Faulty: true, Doc: "Value / Collection of the all-field-kinds test message (nested, repeated, optional fields): one writer task (Set/Add/Update/Delete with nested update masks, interceptors, reset masks), 0-2 subscribers that hold every event they received; every message crossing the boundary re-compared with its copy after every later operation; the caller scribbles over its message after the write returned; read-only calls leave the store unchanged",
		Run:  aliasResRun,
		Real: []string{"pkg/resource Value/Collection", "pkg/masks (through writes and reads)", "internal/minibus"}, Stub: []string{"writer/consumer tasks", "alias monitor"}})
	register(&Scenario{Name: "alias-models", Prop: "C07", Faulty: true, Doc: "operation sequences on the parent, metadata and enter/leave models (the ones whose interceptors look at the old value) with Pull consumers holding old events, plus a reflective driver over the public methods of every discovered trait model (arguments synthesised by type); alias monitor as above, read-only methods must leave every getter's result unchanged",
		Run: aliasModelsRun,
		Info: func() any {
			var sk []string
			reflectSkipped.Range(func(k, v any) bool { sk = append(sk, fmt.Sprintf("%v: %v", k, v)); return true })
			sort.Strings(sk)
			var models []string
			for _, me := range modelRegistry {
				if me.NewModel != nil {
					models = append(models, me.Pkg)
				}
			}
			return map[string]any{"reflective_driver_models": models, "methods_skipped_by_the_reflective_driver": sk}
		},
		Real: []string{"pkg/trait/parentpb, metadatapb, enterleavesensorpb models", "every discovered pkg/trait/*pb NewModel (reflective driver)", "pkg/resource"}, Stub: []string{"caller/consumer tasks", "alias monitor", "argument synthesiser"}})
}

type trackedMsg struct {
	label string
	ptr   proto.Message
	snap  proto.Message
}

// trackedEvent is a change event object (the struct a subscriber was handed a pointer to) with a copy of its fields.
type trackedEvent struct {
	label string
	ptr   reflect.Value // pointer to the event struct
	snap  any           // the struct's value when it was received (comparable: strings, times, flags, message pointers)
}

type aliasMon struct {
	mu    sync.Mutex
	w     *World
	items []trackedMsg
	evs   []trackedEvent
	dead  bool
	key   map[string]any
}

func isNilMsg(m proto.Message) bool {
	if m == nil {
		return true
	}
	v := reflect.ValueOf(m)
	return v.Kind() == reflect.Ptr && v.IsNil()
}

// track records a message handed across the API boundary.
func (a *aliasMon) track(label string, m proto.Message) {
	if isNilMsg(m) {
		return
	}
	a.mu.Lock()
	defer a.mu.Unlock()
	if len(a.items) < 400 {
		a.items = append(a.items, trackedMsg{label: label, ptr: m, snap: proto.Clone(m)})
	}
}

// trackEvent records a received change event object itself: which messages it points to, its kind, id and flags are
// what the subscriber was told, and stay that.
func (a *aliasMon) trackEvent(label string, ev any) {
	v := reflect.ValueOf(ev)
	if v.Kind() != reflect.Ptr || v.IsNil() || v.Elem().Kind() != reflect.Struct || !v.Elem().Type().Comparable() {
		return
	}
	a.mu.Lock()
	defer a.mu.Unlock()
	if len(a.evs) < 200 {
		a.evs = append(a.evs, trackedEvent{label: label, ptr: v, snap: v.Elem().Interface()})
	}
}

// check re-compares everything recorded so far.
func (a *aliasMon) check(after string) bool {
	a.mu.Lock()
	defer a.mu.Unlock()
	if a.dead {
		return false
	}
	for _, it := range a.evs {
		if now := it.ptr.Elem().Interface(); now != it.snap {
			a.dead = true
			k := map[string]any{"holder": strings.SplitN(it.label, ":", 2)[0], "what": "event"}
			for x, y := range a.key {
				k[x] = y
			}
			a.w.Violate("message-changed", fmt.Sprintf("the change event received as [%s] was altered after [%s]\n  when received: %+v\n  now:           %+v", it.label, after, it.snap, now), k)
			return false
		}
	}
	for _, it := range a.items {
		if !proto.Equal(it.ptr, it.snap) {
			a.dead = true
			k := map[string]any{"holder": strings.SplitN(it.label, ":", 2)[0]}
			for x, y := range a.key {
				k[x] = y
			}
			a.w.Violate("message-changed", fmt.Sprintf("a message obtained as [%s] changed after [%s]\n  when obtained: %v\n  now:           %v", it.label, after, it.snap, it.ptr), k)
			return false
		}
	}
	return true
}

// scribble overwrites a caller-owned message after it was handed to a write.
func scribble(m *testproto.TestAllTypes) {
	m.DefaultInt32 = -777
	m.DefaultString = "SCRIBBLED"
	if m.DefaultNestedMessage != nil {
		m.DefaultNestedMessage.A = -777
	}
	for i := range m.RepeatedInt32 {
		m.RepeatedInt32[i] = -777
	}
	m.RepeatedInt32 = append(m.RepeatedInt32, -778)
	if m.OptionalString != nil {
		*m.OptionalString = "SCRIBBLED"
	}
	for _, n := range m.RepeatedNestedMessage {
		n.A = -777
	}
	for k := range m.MapStringString {
		m.MapStringString[k] = "SCRIBBLED"
	}
	if m.MapStringString != nil {
		m.MapStringString["scribbled"] = "x"
	}
}

func richMsg(p *prng, v int32) *testproto.TestAllTypes {
	m := &testproto.TestAllTypes{DefaultInt32: v, DefaultString: fmt.Sprint("s", v)}
	if p.n(2) == 0 {
		m.DefaultNestedMessage = &testproto.TestAllTypes_NestedMessage{A: v}
	}
	for i := p.n(3); i > 0; i-- {
		m.RepeatedInt32 = append(m.RepeatedInt32, v+int32(i))
	}
	for i := p.n(3); i > 0; i-- {
		m.RepeatedNestedMessage = append(m.RepeatedNestedMessage, &testproto.TestAllTypes_NestedMessage{A: v + int32(i)})
	}
	if p.n(2) == 0 {
		s := fmt.Sprint("o", v)
		m.OptionalString = &s
	}
	if p.n(2) == 0 {
		m.MapStringString = map[string]string{fmt.Sprint("k", v%3): fmt.Sprint("v", v)}
	}
	if p.n(3) == 0 {
		m.MapInt32Int32 = map[int32]int32{v % 3: v}
	}
	return m
}

func aliasResRun(w *World) {
	t := w.Tape
	coll := t.Flag(1, 2)
	p := &prng{s: uint64(1 + t.Choose(1<<20))}
	mon := &aliasMon{w: w, key: map[string]any{"resource": resName(coll)}}
	var val *resource.Value
	var col *resource.Collection
	var opts []resource.Option
	if t.Flag(1, 3) {
		opts = append(opts, resource.WithNoDuplicates())
	}
	if coll {
		init := richMsg(p, 1)
		col = resource.NewCollection(append(opts, resource.WithInitialRecord("a", init))...)
	} else {
		val = resource.NewValue(append(opts, resource.WithInitialValue(richMsg(p, 1)))...)
	}
	ids := []string{"a", "b"}
	// stored state as seen through the API, deep-copied
	storeSnap := func() string {
		var sb strings.Builder
		if coll {
			for _, m := range col.List() {
				sb.WriteString(fmt.Sprint(proto.Clone(m)) + "|")
			}
		} else {
			sb.WriteString(fmt.Sprint(proto.Clone(val.Get())))
		}
		return sb.String()
	}
	ctx, cancel := context.WithCancel(context.Background())
	defer cancel()
	nsubs := t.Choose(3)
	for i := 0; i < nsubs; i++ {
		i := i
		bp, uo := t.Flag(1, 2), t.Flag(1, 4)
		masked := t.Flag(1, 3)
		incl := t.Flag(1, 2)
		w.Go(fmt.Sprintf("s%d", i), true, func(task *Task) {
			ro := []resource.ReadOption{resource.WithBackpressure(bp), resource.WithUpdatesOnly(uo)}
			if masked {
				ro = append(ro, resource.WithReadPaths(&testproto.TestAllTypes{}, "default_int32", "default_nested_message", "repeated_int32"))
			}
			if coll {
				if incl {
					ro = append(ro, resource.WithInclude(func(id string, m proto.Message) bool {
						x, ok := m.(*testproto.TestAllTypes)
						return ok && x != nil && x.DefaultInt32%2 == 0
					}))
				}
				ch := col.Pull(ctx, ro...)
				for {
					task.Yield("recv")
					e, ok := <-ch
					if !ok {
						return
					}
					mon.trackEvent(fmt.Sprintf("s%d: event %s(%s)", i, e.ChangeType, e.Id), e)
					mon.track(fmt.Sprintf("s%d: event %s(%s) new value", i, e.ChangeType, e.Id), e.NewValue)
					mon.track(fmt.Sprintf("s%d: event %s(%s) old value", i, e.ChangeType, e.Id), e.OldValue)
				}
			}
			ch := val.Pull(ctx, ro...)
			for {
				task.Yield("recv")
				e, ok := <-ch
				if !ok {
					return
				}
				mon.trackEvent(fmt.Sprintf("s%d: event", i), e)
				mon.track(fmt.Sprintf("s%d: event value", i), e.Value)
			}
		})
	}
	nops := 2 + t.Choose(8)
	maskSets := [][]string{nil, {"default_int32"}, {"default_nested_message.a"}, {"repeated_int32"}, {"default_nested_message", "default_string"}, {"repeated_nested_message"}, {"optional_string"}, {"map_string_string"}, {"map_int32_int32", "default_int32"}, {"repeated_int32", "map_string_string"}}
	w.Go("w", false, func(task *Task) {
		for i := 0; i < nops; i++ {
			task.Yield("op")
			id := ids[t.Choose(2)]
			v := int32(10 + i)
			var desc string
			switch t.Choose(8) {
			case 0: // Get
				before := storeSnap()
				var m proto.Message
				masked := t.Flag(1, 2)
				ro := []resource.ReadOption{}
				if masked {
					ro = append(ro, resource.WithReadPaths(&testproto.TestAllTypes{}, "default_int32", "repeated_nested_message"))
				}
				if coll {
					m, _ = col.Get(id, ro...)
				} else {
					m = val.Get(ro...)
				}
				desc = fmt.Sprintf("Get(%s masked=%v)", id, masked)
				mon.track("reader: "+desc, m)
				if after := storeSnap(); after != before {
					w.Violate("read-changed-store", fmt.Sprintf("%s changed the stored state\n  before: %s\n  after:  %s", desc, before, after), mon.key)
					return
				}
			case 1: // List / second Get
				if !coll {
					continue
				}
				before := storeSnap()
				for k, m := range col.List() {
					mon.track(fmt.Sprintf("reader: List()[%d]", k), m)
				}
				desc = "List()"
				if after := storeSnap(); after != before {
					w.Violate("read-changed-store", fmt.Sprintf("List changed the stored state\n  before: %s\n  after:  %s", before, after), mon.key)
					return
				}
			case 2: // Delete
				if !coll {
					continue
				}
				m, _ := col.Delete(id, resource.WithAllowMissing(true))
				desc = fmt.Sprintf("Delete(%s)", id)
				mon.track("writer: result of "+desc, m)
			default: // write
				msg := richMsg(p, v)
				var wo []resource.WriteOption
				if ms := maskSets[t.Choose(len(maskSets))]; ms != nil {
					wo = append(wo, resource.WithUpdateMask(&fieldmaskpb.FieldMask{Paths: ms}))
				}
				if t.Flag(1, 4) {
					wo = append(wo, resource.WithResetPaths("default_string"))
				}
				if t.Flag(1, 3) {
					wo = append(wo, resource.InterceptBefore(func(old, new proto.Message) {
						// read-modify-write the documented way: read old, write new
						if o, ok := old.(*testproto.TestAllTypes); ok && o != nil {
							n := new.(*testproto.TestAllTypes)
							n.DefaultInt64 = o.DefaultInt64 + 1
							n.RepeatedInt64 = append(append([]int64{}, o.RepeatedInt64...), int64(v))
						}
					}))
				}
				if t.Flag(1, 4) {
					wo = append(wo, resource.InterceptAfter(func(old, new proto.Message) {
						new.(*testproto.TestAllTypes).DefaultUint32++
					}))
				}
				var res proto.Message
				var err error
				if coll {
					wo = append(wo, resource.WithCreateIfAbsent())
					res, err = col.Update(id, msg, wo...)
					desc = fmt.Sprintf("Update(%s, v%d)", id, v)
				} else {
					res, err = val.Set(msg, wo...)
					desc = fmt.Sprintf("Set(v%d)", v)
				}
				mon.track("writer: result of "+desc, res)
				if err == nil {
					// the caller reuses its message: the store must not notice
					before := storeSnap()
					scribble(msg)
					w.Fault("caller-mutate")
					if after := storeSnap(); after != before {
						w.Violate("caller-mutation-visible", fmt.Sprintf("changing the message after %s returned changed the stored state\n  before: %s\n  after:  %s", desc, before, after), mon.key)
						return
					}
				}
			}
			task.Note("%s", desc)
			if !mon.check(desc) {
				return
			}
		}
	})
	w.Run()
	mon.check("the end of the run")
	w.MarkNontrivial()
	cancel()
	w.Run()
}

// alias-race: two plain writers at once. A write that loses the race between its read and its commit must leave what the
// winner stored - and everything that was handed out of it - alone.
func init() {
	register(&Scenario{Name: "alias-race", Prop: "C07", Faulty: true, Doc: "Value / Collection of the all-field-kinds test message written by two tasks at the same time (plain writes and masked writes, no callbacks), with a subscriber holding every event; every result, read and event re-compared with its copy after every later operation: whatever a write that lost a race does, nothing handed out before changes",
		Run:  aliasRaceRun,
		Real: []string{"pkg/resource Value/Collection"}, Stub: []string{"writer/reader tasks", "alias monitor"}})
}

func aliasRaceRun(w *World) {
	t := w.Tape
	coll := t.Flag(1, 2)
	p := &prng{s: uint64(1 + t.Choose(1<<20))}
	mon := &aliasMon{w: w, key: map[string]any{"resource": resName(coll)}}
	var val *resource.Value
	var col *resource.Collection
	if coll {
		col = resource.NewCollection(resource.WithInitialRecord("a", richMsg(p, 1)))
	} else {
		val = resource.NewValue(resource.WithInitialValue(richMsg(p, 1)))
	}
	ctx, cancel := context.WithCancel(context.Background())
	defer cancel()
	if t.Flag(1, 2) {
		bp := t.Flag(1, 2)
		w.Go("s", true, func(task *Task) {
			if coll {
				ch := col.Pull(ctx, resource.WithBackpressure(bp))
				for {
					task.Yield("recv")
					e, ok := <-ch
					if !ok {
						return
					}
					mon.track("subscriber: event new value", e.NewValue)
					mon.track("subscriber: event old value", e.OldValue)
				}
			}
			ch := val.Pull(ctx, resource.WithBackpressure(bp))
			for {
				task.Yield("recv")
				e, ok := <-ch
				if !ok {
					return
				}
				mon.track("subscriber: event value", e.Value)
			}
		})
	}
	n := int32(10)
	for i := 0; i < 2; i++ {
		name := fmt.Sprintf("w%d", i)
		k := 1 + t.Choose(4)
		w.Go(name, false, func(task *Task) {
			for j := 0; j < k; j++ {
				task.Yield("op")
				n++
				msg := richMsg(p, n)
				var wo []resource.WriteOption
				if t.Flag(1, 3) {
					wo = append(wo, resource.WithUpdatePaths("default_int32", "default_nested_message.a"))
				}
				var res proto.Message
				switch {
				case t.Flag(1, 4):
					if coll {
						res, _ = col.Get("a")
					} else {
						res = val.Get()
					}
					mon.track(name+": read", res)
				case coll:
					res, _ = col.Update("a", msg, append(wo, resource.WithCreateIfAbsent())...)
					mon.track(name+": result of Update", res)
				default:
					res, _ = val.Set(msg, wo...)
					mon.track(name+": result of Set", res)
				}
				if !mon.check(name + "'s operation") {
					return
				}
			}
		})
	}
	w.Run()
	mon.check("the end of the run")
	w.MarkNontrivial()
	cancel()
	w.Run()
}

// ---- trait models -----------------------------------------------------------------------------------------------------------

func aliasModelsRun(w *World) {
	t := w.Tape
	switch t.Choose(7) {
	case 0:
		aliasParent(w)
	case 1:
		aliasMetadata(w)
	case 2:
		aliasEnterLeave(w)
	case 3:
		aliasHail(w)
	case 4:
		aliasOpenClose(w)
	default:
		aliasReflective(w)
	}
}

// aliasOpenClose: a model whose writes span several records. UpdatePositions writes one position after the other, with
// the caller's write options (preconditions, interceptors) applied to each: a later position that is refused leaves the
// call with an error after earlier ones were written. Whatever the model does about that, the messages it handed out
// before stay what they were.
func aliasOpenClose(w *World) {
	t := w.Tape
	mon := &aliasMon{w: w, key: map[string]any{"model": "openclosepb"}}
	var mopts []resource.Option
	readOnly := t.Flag(1, 2)
	if readOnly {
		// positions with fields only the driver sets (here: the resistance, present from the start): clients write the rest
		mopts = append(mopts, openclosepb.WithPositionsOption(resource.WithWritablePaths(&traits.OpenClosePosition{}, "open_percent", "direction", "target_open_percent")),
			openclosepb.WithInitialPositions(
				&traits.OpenClosePosition{Direction: traits.OpenClosePosition_DIRECTION_UNSPECIFIED, OpenPercent: 1, Resistance: traits.OpenClosePosition_HELD},
				&traits.OpenClosePosition{Direction: traits.OpenClosePosition_UP, OpenPercent: 2, Resistance: traits.OpenClosePosition_HELD},
				&traits.OpenClosePosition{Direction: traits.OpenClosePosition_DOWN, OpenPercent: 3, Resistance: traits.OpenClosePosition_HELD}))
	}
	// a preset with a name and no title, and one with both: read-only calls (listing, describing) hand them out
	presetOpen := &traits.OpenClosePositions_Preset{Name: "open"}
	mopts = append(mopts,
		openclosepb.WithPreset(presetOpen, &traits.OpenClosePosition{Direction: traits.OpenClosePosition_UP, OpenPercent: 100}),
		openclosepb.WithPreset(&traits.OpenClosePositions_Preset{Name: "shut", Title: "Shut"}, &traits.OpenClosePosition{Direction: traits.OpenClosePosition_UP, OpenPercent: 0}))
	m := openclosepb.NewModel(mopts...)
	srv := openclosepb.NewModelServer(m)
	mon.track("set-up: the preset given to WithPreset", presetOpen)
	ctx, cancel := context.WithCancel(context.Background())
	defer cancel()
	if t.Flag(2, 3) {
		ch := m.PullPositions(ctx, resource.WithBackpressure(t.Flag(1, 2)))
		w.Go("s", true, func(task *Task) {
			for {
				task.Yield("recv")
				e, ok := <-ch
				if !ok {
					return
				}
				mon.track("subscriber: PullPositions value", e.Positions)
			}
		})
	}
	dirs := []traits.OpenClosePosition_Direction{traits.OpenClosePosition_DIRECTION_UNSPECIFIED, traits.OpenClosePosition_UP, traits.OpenClosePosition_DOWN}
	n := 3 + t.Choose(6)
	w.Go("w", false, func(task *Task) {
		for i := 0; i < n; i++ {
			task.Yield("op")
			var desc string
			switch t.Choose(8) {
			case 5:
				r, _ := srv.DescribePositions(context.Background(), &traits.DescribePositionsRequest{})
				desc = "DescribePositions()"
				mon.track("caller: "+desc, r)
			case 6:
				desc = "ListPresets()"
				for _, p := range m.ListPresets() {
					mon.track("caller: "+desc, p)
				}
			case 7:
				name := []string{"open", "shut"}[t.Choose(2)]
				r, err := m.UpdatePositions(&traits.OpenClosePositions{Preset: &traits.OpenClosePositions_Preset{Name: name}})
				desc = fmt.Sprintf("UpdatePositions(preset %s) -> %v", name, err)
				mon.track("caller: result of "+desc, r)
			case 0:
				r, _ := m.GetPositions()
				desc = "GetPositions()"
				mon.track("caller: "+desc, r)
			case 1:
				d := dirs[t.Choose(len(dirs))]
				r, _ := m.GetPosition(d)
				desc = fmt.Sprintf("GetPosition(%v)", d)
				mon.track("caller: "+desc, r)
			default:
				// 1-3 positions; sometimes with a precondition of the caller's that refuses one direction (so that a later
				// position fails after earlier ones were written), sometimes with an interceptor of the caller's (a relative move)
				k := 1 + t.Choose(3)
				ps := &traits.OpenClosePositions{}
				for j := 0; j < k; j++ {
					st := &traits.OpenClosePosition{Direction: dirs[(i+j)%len(dirs)], OpenPercent: float32(10*i + j + 5)}
					if !readOnly {
						st.Resistance = traits.OpenClosePosition_HELD
					}
					ps.States = append(ps.States, st)
				}
				var wo []resource.WriteOption
				kind := t.Choose(4)
				refuse := dirs[t.Choose(len(dirs))]
				switch kind {
				case 1:
					wo = append(wo, resource.WithExpectedCheck(func(old proto.Message) error {
						if p, ok := old.(*traits.OpenClosePosition); ok && p != nil && p.Direction == refuse && p.OpenPercent > 0 {
							return status.Error(codes.FailedPrecondition, "not this one")
						}
						return nil
					}))
				case 2:
					wo = append(wo, resource.InterceptBefore(func(old, change proto.Message) {
						if o, ok := old.(*traits.OpenClosePosition); ok && o != nil {
							change.(*traits.OpenClosePosition).OpenPercent += o.OpenPercent
						}
					}))
				}
				r, err := m.UpdatePositions(ps, wo...)
				desc = fmt.Sprintf("UpdatePositions(%d positions, options %d) -> %v", k, kind, err)
				mon.track("caller: result of "+desc, r)
			}
			task.Note("%s", desc)
			if !mon.check(desc) {
				return
			}
		}
	})
	w.Run()
	mon.check("the end of the run")
	w.MarkNontrivial()
	cancel()
	w.Run()
}

// aliasHail: a model with housekeeping of its own. The hail model's keep-alive collector looks at every stored hail
// whenever one is created (at most once per keep-alive period): whatever it does with them, a message that was handed
// to a caller or a subscriber stays what it was, and the store only changes through writes that subscribers are told of.
func aliasHail(w *World) {
	t := w.Tape
	mon := &aliasMon{w: w, key: map[string]any{"model": "hailpb"}}
	keep := []time.Duration{time.Second, 30 * time.Second}[t.Choose(2)]
	m := hailpb.NewModel(hailpb.WithKeepAlive(keep))
	ctx, cancel := context.WithCancel(context.Background())
	defer cancel()
	if t.Flag(2, 3) {
		ch := m.PullHails(ctx, resource.WithBackpressure(t.Flag(1, 2)))
		w.Go("s", true, func(task *Task) {
			for {
				task.Yield("recv")
				e, ok := <-ch
				if !ok {
					return
				}
				mon.track("subscriber: PullHails old value", e.OldValue)
				mon.track("subscriber: PullHails new value", e.NewValue)
			}
		})
	}
	var ids []string
	n := 3 + t.Choose(7)
	w.Go("w", false, func(task *Task) {
		for i := 0; i < n; i++ {
			task.Yield("op")
			var desc string
			pick := func() string {
				if len(ids) == 0 {
					return "nope"
				}
				return ids[t.Choose(len(ids))]
			}
			switch t.Choose(8) {
			case 0, 1:
				h, err := m.CreateHail(&traits.Hail{Origin: &traits.Hail_Location{Name: fmt.Sprint("o", i)}})
				desc = "CreateHail()"
				if err == nil {
					ids = append(ids, h.Id)
					mon.track("caller: result of "+desc, h)
				}
			case 2:
				// the state alone (clients need not say when a hail arrived)
				id := pick()
				h, _ := m.UpdateHail(&traits.Hail{Id: id, State: traits.Hail_ARRIVED}, resource.WithUpdatePaths("state"))
				desc = "UpdateHail(" + id + ", state=ARRIVED, mask state)"
				mon.track("caller: result of "+desc, h)
			case 3:
				id := pick()
				at := time.Now().Add(-time.Duration(t.Choose(3)) * time.Minute)
				h, _ := m.UpdateHail(&traits.Hail{Id: id, State: traits.Hail_ARRIVED, ArriveTime: timestamppb.New(at)})
				desc = "UpdateHail(" + id + ", arrived)"
				mon.track("caller: result of "+desc, h)
			case 4:
				id := pick()
				h, _ := m.GetHail(id)
				desc = "GetHail(" + id + ")"
				mon.track("caller: "+desc, h)
			case 5:
				desc = "ListHails()"
				for _, h := range m.ListHails() {
					mon.track("caller: "+desc, h)
				}
			case 6:
				d := []time.Duration{500 * time.Millisecond, 2 * time.Second, 40 * time.Second}[t.Choose(3)]
				task.Sleep(d) // the collector may run again at the next create
				desc = "pause " + d.String()
			default:
				id := pick()
				h, _ := m.DeleteHail(id, resource.WithAllowMissing(true))
				desc = "DeleteHail(" + id + ")"
				mon.track("caller: result of "+desc, h)
			}
			task.Note("%s", desc)
			if !mon.check(desc) {
				return
			}
		}
	})
	w.Run()
	mon.check("the end of the run")
	w.MarkNontrivial()
	cancel()
	w.Run()
	w.Advance(41 * time.Second) // the collector's timer runs out
	w.Run()
}

func aliasParent(w *World) {
	t := w.Tape
	mon := &aliasMon{w: w, key: map[string]any{"model": "parentpb"}}
	m := parentpb.NewModel()
	// (trait lists of every length up to ten, announced one or several at a time and in any order: what a list's spare
	// capacity and an insertion in the middle do to earlier results depends on all of that)
	tn := []trait.Name{"a", "b", "c", "d", "e", "f", "g", "h", "i", "z"}
	first := &traits.Child{Name: "c1"}
	for _, n := range tn {
		if t.Flag(1, 2) {
			first.Traits = append(first.Traits, &traits.Trait{Name: string(n)})
		}
	}
	m.AddChild(first)
	ctx, cancel := context.WithCancel(context.Background())
	defer cancel()
	if t.Flag(2, 3) {
		ch := m.PullChildren(ctx, resource.WithBackpressure(t.Flag(1, 2)))
		w.Go("s", true, func(task *Task) {
			for {
				task.Yield("recv")
				e, ok := <-ch
				if !ok {
					return
				}
				mon.track("subscriber: PullChildren new value", e.NewValue)
				mon.track("subscriber: PullChildren old value", e.OldValue)
			}
		})
	}
	names := []string{"c1", "c2"}
	n := 2 + t.Choose(7)
	w.Go("w", false, func(task *Task) {
		for i := 0; i < n; i++ {
			task.Yield("op")
			name := names[t.Choose(2)]
			t1 := tn[t.Choose(len(tn))]
			var desc string
			switch t.Choose(6) {
			case 0, 1, 2:
				ts := []trait.Name{t1}
				for k := t.Choose(4); k > 0; k-- {
					ts = append(ts, tn[t.Choose(len(tn))])
				}
				c, _ := m.AddChildTrait(name, ts...)
				desc = fmt.Sprintf("AddChildTrait(%s,%v)", name, ts)
				mon.track("caller: result of "+desc, c)
			case 3:
				c := m.RemoveChildTrait(name, t1)
				desc = fmt.Sprintf("RemoveChildTrait(%s,%s)", name, t1)
				mon.track("caller: result of "+desc, c)
			case 4:
				for k, c := range m.ListChildren() {
					mon.track(fmt.Sprintf("caller: ListChildren()[%d]", k), c)
				}
				desc = "ListChildren()"
			default:
				c, _ := m.RemoveChildByName(name, resource.WithAllowMissing(true))
				desc = fmt.Sprintf("RemoveChildByName(%s)", name)
				mon.track("caller: result of "+desc, c)
			}
			task.Note("%s", desc)
			if !mon.check(desc) {
				return
			}
		}
	})
	w.Run()
	mon.check("the end of the run")
	w.MarkNontrivial()
	cancel()
	w.Run()
}

func aliasMetadata(w *World) {
	t := w.Tape
	mon := &aliasMon{w: w, key: map[string]any{"model": "metadatapb"}}
	m := metadatapb.NewModel()
	ctx, cancel := context.WithCancel(context.Background())
	defer cancel()
	if t.Flag(2, 3) {
		ch := m.PullMetadata(ctx, resource.WithBackpressure(t.Flag(1, 2)))
		w.Go("s", true, func(task *Task) {
			for {
				task.Yield("recv")
				e, ok := <-ch
				if !ok {
					return
				}
				mon.track("subscriber: PullMetadata value", e.Metadata)
			}
		})
	}
	n := 2 + t.Choose(7)
	w.Go("w", false, func(task *Task) {
		for i := 0; i < n; i++ {
			task.Yield("op")
			tr := []string{"ta", "tb", "tc"}[t.Choose(3)]
			var desc string
			switch t.Choose(7) {
			case 0, 1:
				r, _ := m.UpdateTraitMetadata(&traits.TraitMetadata{Name: tr, More: map[string]string{fmt.Sprint("k", i): "v"}})
				desc = fmt.Sprintf("UpdateTraitMetadata(%s)", tr)
				mon.track("caller: result of "+desc, r)
			case 2:
				r, _ := m.MergeMetadata(&traits.Metadata{Name: fmt.Sprint("n", i), Traits: []*traits.TraitMetadata{{Name: tr}, {Name: "aa"}}})
				desc = fmt.Sprintf("MergeMetadata(name, traits %s,aa)", tr)
				mon.track("caller: result of "+desc, r)
			case 3:
				// plain update: may store the traits in any order
				r, _ := m.UpdateMetadata(&traits.Metadata{Name: fmt.Sprint("x", i), Traits: []*traits.TraitMetadata{{Name: "zz"}, {Name: tr}, {Name: "aa"}}})
				desc = "UpdateMetadata(traits zz," + tr + ",aa)"
				mon.track("caller: result of "+desc, r)
			case 5:
				// merge that carries no traits at all
				r, _ := m.MergeMetadata(&traits.Metadata{Membership: &traits.Metadata_Membership{Subsystem: fmt.Sprint("s", i)}})
				desc = "MergeMetadata(membership only)"
				mon.track("caller: result of "+desc, r)
			default:
				r, _ := m.GetMetadata()
				desc = "GetMetadata()"
				mon.track("caller: "+desc, r)
			}
			task.Note("%s", desc)
			if !mon.check(desc) {
				return
			}
		}
	})
	w.Run()
	mon.check("the end of the run")
	w.MarkNontrivial()
	cancel()
	w.Run()
}

func aliasEnterLeave(w *World) {
	t := w.Tape
	mon := &aliasMon{w: w, key: map[string]any{"model": "enterleavesensorpb"}}
	m := enterleavesensorpb.NewModel()
	ctx, cancel := context.WithCancel(context.Background())
	defer cancel()
	stored := func() string {
		v, _ := m.GetEnterLeaveEvent()
		return fmt.Sprint(proto.Clone(v))
	}
	nsub := 0
	n := 2 + t.Choose(7)
	w.Go("w", false, func(task *Task) {
		for i := 0; i < n; i++ {
			task.Yield("op")
			var desc string
			switch t.Choose(5) {
			case 0, 1:
				dir := []traits.EnterLeaveEvent_Direction{traits.EnterLeaveEvent_ENTER, traits.EnterLeaveEvent_LEAVE}[t.Choose(2)]
				_ = m.CreateEnterLeaveEvent(&traits.EnterLeaveEvent{Direction: dir, Occupant: &traits.EnterLeaveEvent_Occupant{Name: fmt.Sprint("o", i)}})
				desc = fmt.Sprintf("CreateEnterLeaveEvent(%s)", dir)
			case 2:
				_ = m.ResetTotals()
				desc = "ResetTotals()"
			case 3:
				before := stored()
				v, _ := m.GetEnterLeaveEvent()
				desc = "GetEnterLeaveEvent()"
				mon.track("caller: "+desc, v)
				if after := stored(); after != before {
					w.Violate("read-changed-store", "GetEnterLeaveEvent changed the stored event: "+before+" -> "+after, mon.key)
					return
				}
			default:
				if nsub >= 2 {
					continue
				}
				nsub++
				before := stored()
				uo := t.Flag(1, 3)
				ch := m.PullEnterLeaveEvents(ctx, resource.WithUpdatesOnly(uo), resource.WithBackpressure(t.Flag(1, 2)))
				name := fmt.Sprintf("s%d", nsub)
				w.Go(name, true, func(st *Task) {
					for {
						st.Yield("recv")
						e, ok := <-ch
						if !ok {
							return
						}
						mon.track("subscriber "+name+": event value", e.Value)
					}
				})
				desc = fmt.Sprintf("PullEnterLeaveEvents(updatesOnly=%v) + first receive", uo)
				// let the subscription deliver its seed
				task.Yield("after-pull")
				task.Yield("after-pull")
				if after := stored(); after != before {
					w.Violate("read-changed-store", fmt.Sprintf("opening a Pull (and receiving its seed) changed the stored event\n  before: %s\n  after:  %s", before, after), mon.key)
					return
				}
			}
			task.Note("%s", desc)
			if !mon.check(desc) {
				return
			}
		}
	})
	w.Run()
	mon.check("the end of the run")
	w.MarkNontrivial()
	cancel()
	w.Run()
}

// ---- reflective driver over every discovered model ----------------------------------------------------------------------------

var (
	protoMessageType = reflect.TypeOf((*proto.Message)(nil)).Elem()
	contextType      = reflect.TypeOf((*context.Context)(nil)).Elem()
	errorType        = reflect.TypeOf((*error)(nil)).Elem()
)

// synthArg builds an argument of type ty; ok=false when the type cannot be synthesised.
func synthArg(ty reflect.Type, p *prng, ctx context.Context) (reflect.Value, bool) {
	switch {
	case ty == contextType:
		return reflect.ValueOf(ctx), true
	case ty.Kind() == reflect.Ptr && ty.Implements(protoMessageType):
		v := reflect.New(ty.Elem())
		fillMessage(v.Interface().(proto.Message).ProtoReflect(), p, 2)
		return v, true
	case ty.Kind() == reflect.String:
		return reflect.ValueOf(p.poolID()).Convert(ty), true
	case ty.Kind() == reflect.Bool:
		return reflect.ValueOf(p.n(2) == 0).Convert(ty), true
	case ty.Kind() >= reflect.Int && ty.Kind() <= reflect.Int64:
		return reflect.ValueOf(int64(p.n(4))).Convert(ty), true
	case ty.Kind() >= reflect.Uint && ty.Kind() <= reflect.Uint64:
		return reflect.ValueOf(uint64(p.n(4))).Convert(ty), true
	case ty.Kind() == reflect.Float32 || ty.Kind() == reflect.Float64:
		return reflect.ValueOf(float64(p.n(50))).Convert(ty), true
	}
	return reflect.Value{}, false
}

// collectMsgs finds proto messages reachable from a result value (pointers, slices, struct fields).
func collectMsgs(v reflect.Value, depth int, out *[]proto.Message) {
	if !v.IsValid() || depth < 0 {
		return
	}
	if v.Kind() == reflect.Interface {
		if v.IsNil() {
			return
		}
		v = v.Elem()
	}
	if v.Type().Implements(protoMessageType) {
		if v.Kind() == reflect.Ptr && v.IsNil() {
			return
		}
		*out = append(*out, v.Interface().(proto.Message))
		return
	}
	switch v.Kind() {
	case reflect.Ptr:
		if !v.IsNil() {
			collectMsgs(v.Elem(), depth-1, out)
		}
	case reflect.Slice:
		for i := 0; i < v.Len() && i < 8; i++ {
			collectMsgs(v.Index(i), depth-1, out)
		}
	case reflect.Struct:
		for i := 0; i < v.NumField(); i++ {
			if v.Type().Field(i).IsExported() {
				collectMsgs(v.Field(i), depth-1, out)
			}
		}
	}
}

var reflectSkipped sync.Map // "pkg.Method" -> reason (reported through Info)

func aliasReflective(w *World) {
	t := w.Tape
	var cands []modelEntry
	for _, me := range modelRegistry {
		if me.NewModel != nil {
			cands = append(cands, me)
		}
	}
	if len(cands) == 0 {
		return
	}
	me := cands[t.Choose(len(cands))]
	w.SetCase("reflective:" + me.Pkg)
	mon := &aliasMon{w: w, key: map[string]any{"model": me.Pkg}}
	p := &prng{s: uint64(1 + t.Choose(1<<20))}
	obj := reflect.ValueOf(me.NewModel())
	ty := obj.Type()
	type meth struct {
		m        reflect.Method
		readOnly bool
		recv     reflect.Value // the model, or the model's gRPC server
		server   bool
	}
	var ms []meth
	for i := 0; i < ty.NumMethod(); i++ {
		m := ty.Method(i)
		ok := true
		for a := 1; a < m.Type.NumIn(); a++ {
			at := m.Type.In(a)
			if m.Type.IsVariadic() && a == m.Type.NumIn()-1 {
				continue // variadic options: none given
			}
			if _, can := synthArg(at, p, context.Background()); !can {
				ok = false
				reflectSkipped.Store(me.Pkg+"."+m.Name, "cannot synthesise "+at.String())
			}
		}
		if !ok {
			continue
		}
		n := m.Name
		ro := strings.HasPrefix(n, "Get") || strings.HasPrefix(n, "List") || strings.HasPrefix(n, "Describe") || strings.HasPrefix(n, "Pull") || strings.HasPrefix(n, "Find") || strings.HasPrefix(n, "Has")
		if !ro && (m.Type.NumIn() == 1 || (m.Type.NumIn() == 2 && m.Type.IsVariadic() && m.Type.In(1).Elem() == reflect.TypeOf((*resource.ReadOption)(nil)).Elem())) {
			// getters by shape (ModeValues(), Modes(), ActiveMode(...ReadOption)): nothing but read options goes in, messages and
			// no error come out
			msgOut, errOut := false, false
			for o := 0; o < m.Type.NumOut(); o++ {
				ot := m.Type.Out(o)
				if ot.Implements(errorType) {
					errOut = true
				}
				if ot.Implements(protoMessageType) || (ot.Kind() == reflect.Slice && ot.Elem().Implements(protoMessageType)) {
					msgOut = true
				}
			}
			ro = msgOut && !errOut
		}
		ms = append(ms, meth{m: m, readOnly: ro, recv: obj})
	}
	// the model's server (the RPC handlers have logic of their own: relative updates, defaults, conversions): its unary
	// methods, with synthesised requests
	if me.NewServer != nil {
		srv := reflect.ValueOf(me.NewServer(obj.Interface()))
		sty := srv.Type()
		for i := 0; i < sty.NumMethod(); i++ {
			m := sty.Method(i)
			ft := m.Type
			if ft.NumIn() != 3 || ft.NumOut() != 2 || ft.In(1) != contextType || !ft.Out(1).Implements(errorType) ||
				ft.In(2).Kind() != reflect.Ptr || !ft.In(2).Implements(protoMessageType) || !ft.Out(0).Implements(protoMessageType) {
				continue
			}
			n := m.Name
			ro := strings.HasPrefix(n, "Get") || strings.HasPrefix(n, "List") || strings.HasPrefix(n, "Describe")
			ms = append(ms, meth{m: m, readOnly: ro, recv: srv, server: true})
		}
	}
	if len(ms) == 0 {
		return
	}
	sort.Slice(ms, func(i, j int) bool {
		if ms[i].server != ms[j].server {
			return !ms[i].server
		}
		return ms[i].m.Name < ms[j].m.Name
	})
	ctx, cancel := context.WithCancel(context.Background())
	defer cancel()
	readOptType := reflect.TypeOf((*resource.ReadOption)(nil)).Elem()
	var lastArgs []reflect.Value
	call := func(x meth, withOpts bool) (res []reflect.Value, panicked bool) {
		m := x.m
		defer func() {
			if r := recover(); r != nil {
				panicked = true // a model method rejecting a synthesised argument by panicking is not an aliasing observation
			}
		}()
		args := []reflect.Value{x.recv}
		for a := 1; a < m.Type.NumIn(); a++ {
			if m.Type.IsVariadic() && a == m.Type.NumIn()-1 {
				// variadic read options: sometimes a read mask with top-level and nested paths of the result type
				if withOpts && m.Type.In(a).Elem() == readOptType && p.n(2) == 0 {
					if md := resultMessage(m.Type); md != nil {
						if paths := randomPaths(md, p); len(paths) > 0 {
							args = append(args, reflect.ValueOf(resource.WithReadMask(&fieldmaskpb.FieldMask{Paths: paths})))
						}
					}
				}
				continue
			}
			v, _ := synthArg(m.Type.In(a), p, ctx)
			if pm, isMsg := v.Interface().(proto.Message); isMsg && p.n(2) == 0 {
				poolStrings(pm.ProtoReflect(), p) // ids that the string arguments of other methods can address
			}
			args = append(args, v)
		}
		lastArgs = args
		return m.Func.Call(args), false
	}
	// stored state through the model's own read-only getters (no channels)
	getters := func() string {
		var sb strings.Builder
		for _, x := range ms {
			if x.server || !x.readOnly || strings.HasPrefix(x.m.Name, "Pull") || x.m.Type.NumIn() > 1 && !(x.m.Type.IsVariadic() && x.m.Type.NumIn() == 2) {
				continue
			}
			res, pan := call(x, false)
			if pan {
				continue
			}
			var msgs []proto.Message
			for _, r := range res {
				collectMsgs(r, 3, &msgs)
			}
			for _, m := range msgs {
				sb.WriteString(x.m.Name + "=" + fmt.Sprint(proto.Clone(m)) + "|")
			}
		}
		return sb.String()
	}
	// what the model holds (and, below, whatever it hands out) feeds the generator's dictionary: requests that name
	// things that exist
	harvest := func() {
		for _, x := range ms {
			if x.server || !x.readOnly || strings.HasPrefix(x.m.Name, "Pull") || x.m.Type.NumIn() > 1 && !(x.m.Type.IsVariadic() && x.m.Type.NumIn() == 2) {
				continue
			}
			res, pan := call(x, false)
			if pan {
				continue
			}
			var msgs []proto.Message
			for _, r := range res {
				collectMsgs(r, 3, &msgs)
			}
			for _, m := range msgs {
				harvestStrings(m.ProtoReflect(), &p.dict, &p.keys, 3)
			}
		}
		sort.Strings(p.dict)
		sort.Strings(p.keys)
	}
	nsub := 0
	n := 2 + t.Choose(8)
	var writers []int
	for i, x := range ms {
		if !x.readOnly && !strings.HasPrefix(x.m.Name, "Pull") {
			writers = append(writers, i)
		}
	}
	w.Go("w", false, func(task *Task) {
		harvest()
		for i := 0; i < n; i++ {
			task.Yield("op")
			x := ms[t.Choose(len(ms))]
			if i < 2 && len(writers) > 0 && t.Flag(1, 2) {
				x = ms[writers[t.Choose(len(writers))]] // often: start by putting something into the model
			}
			desc := me.Pkg + ".Model." + x.m.Name
			if x.server {
				desc = me.Pkg + ".ModelServer." + x.m.Name
			}
			var before string
			isPull := strings.HasPrefix(x.m.Name, "Pull")
			if isPull && nsub >= 2 {
				continue
			}
			if x.readOnly {
				before = getters()
			}
			res, pan := call(x, true)
			if pan {
				task.Note("%s panicked on a synthesised argument (ignored)", desc)
				continue
			}
			for _, r := range res {
				if r.Kind() == reflect.Chan && r.Type().ChanDir()&reflect.RecvDir != 0 {
					nsub++
					ch := r
					name := fmt.Sprintf("s%d", nsub)
					w.Go(name, true, func(st *Task) {
						for {
							st.Yield("recv")
							v, ok := ch.Recv()
							if !ok {
								return
							}
							var msgs []proto.Message
							collectMsgs(v, 3, &msgs)
							for _, m := range msgs {
								mon.track("subscriber "+name+": "+desc+" event", m)
							}
						}
					})
					continue
				}
				var msgs []proto.Message
				collectMsgs(r, 3, &msgs)
				for _, m := range msgs {
					mon.track("caller: result of "+desc, m)
				}
			}
			if isPull {
				task.Yield("after-pull")
				task.Yield("after-pull")
			}
			if !x.readOnly {
				// the caller goes on using (and changing) the messages it passed in: neither the store nor anything handed
				// out so far may follow
				var mine []proto.Message
				for _, a := range lastArgs[1:] {
					collectMsgs(a, 1, &mine)
				}
				if len(mine) > 0 {
					stored := getters()
					for _, m := range mine {
						scribbleReflect(m.ProtoReflect(), 3)
					}
					w.Fault("caller-mutate")
					if after := getters(); after != stored {
						w.Violate("caller-mutation-visible", fmt.Sprintf("after %s returned, the caller changed the message(s) it had passed in and the model's stored state followed\n  before: %s\n  after:  %s", desc, stored, after), mon.key)
						return
					}
				}
			}
			if x.readOnly {
				if after := getters(); after != before {
					w.Violate("read-changed-store", fmt.Sprintf("%s (a read-only method) changed what the model's getters return\n  before: %s\n  after:  %s", desc, before, after), mon.key)
					return
				}
			}
			task.Note("%s", desc)
			if !mon.check(desc) {
				return
			}
		}
	})
	w.Run()
	mon.check("the end of the run")
	w.MarkNontrivial()
	cancel()
	w.Run()
}

// poolID draws an id from the small pool; half of the time the one drawn last (calls that follow each other tend to be
// about the same thing).
func (p *prng) poolID() string {
	if p.last != "" && p.n(2) == 0 {
		return p.last
	}
	p.last = []string{"a", "b", "m1"}[p.n(3)]
	return p.last
}

// poolStrings sets top-level string fields to ids from the small pool that string arguments are drawn from.
func poolStrings(m protoreflect.Message, p *prng) {
	fds := m.Descriptor().Fields()
	for i := 0; i < fds.Len(); i++ {
		fd := fds.Get(i)
		if fd.Kind() == protoreflect.StringKind && !fd.IsList() && !fd.IsMap() && p.n(2) == 0 {
			m.Set(fd, protoreflect.ValueOfString(p.poolID()))
		}
	}
}

// scribbleReflect changes every populated scalar of m (recursively), the way a caller reusing its request would.
func scribbleReflect(m protoreflect.Message, depth int) {
	m.Range(func(fd protoreflect.FieldDescriptor, v protoreflect.Value) bool {
		bump := func(v protoreflect.Value) protoreflect.Value {
			switch fd.Kind() {
			case protoreflect.BoolKind:
				return protoreflect.ValueOfBool(!v.Bool())
			case protoreflect.Int32Kind, protoreflect.Sint32Kind, protoreflect.Sfixed32Kind:
				return protoreflect.ValueOfInt32(int32(v.Int()) + 1000)
			case protoreflect.Int64Kind, protoreflect.Sint64Kind, protoreflect.Sfixed64Kind:
				return protoreflect.ValueOfInt64(v.Int() + 1000)
			case protoreflect.Uint32Kind, protoreflect.Fixed32Kind:
				return protoreflect.ValueOfUint32(uint32(v.Uint()) + 1000)
			case protoreflect.Uint64Kind, protoreflect.Fixed64Kind:
				return protoreflect.ValueOfUint64(v.Uint() + 1000)
			case protoreflect.FloatKind:
				return protoreflect.ValueOfFloat32(float32(v.Float()) + 1000)
			case protoreflect.DoubleKind:
				return protoreflect.ValueOfFloat64(v.Float() + 1000)
			case protoreflect.StringKind:
				return protoreflect.ValueOfString(v.String() + "-changed-by-caller")
			case protoreflect.BytesKind:
				return protoreflect.ValueOfBytes(append([]byte("changed"), v.Bytes()...))
			}
			return v
		}
		switch {
		case fd.IsMap():
		case fd.IsList():
			l := v.List()
			for i := 0; i < l.Len(); i++ {
				if fd.Kind() == protoreflect.MessageKind {
					if depth > 0 {
						scribbleReflect(l.Get(i).Message(), depth-1)
					}
				} else {
					l.Set(i, bump(l.Get(i)))
				}
			}
		case fd.Kind() == protoreflect.MessageKind || fd.Kind() == protoreflect.GroupKind:
			if depth > 0 {
				scribbleReflect(v.Message(), depth-1)
			}
		default:
			m.Set(fd, bump(v))
		}
		return true
	})
}

// resultMessage finds the proto message type a method hands out: *T, []*T, or a channel of structs / messages carrying one.
func resultMessage(ft reflect.Type) protoreflect.MessageDescriptor {
	var find func(t reflect.Type, depth int) protoreflect.MessageDescriptor
	find = func(t reflect.Type, depth int) protoreflect.MessageDescriptor {
		if depth < 0 {
			return nil
		}
		if t.Kind() == reflect.Ptr && t.Implements(protoMessageType) {
			return reflect.New(t.Elem()).Interface().(proto.Message).ProtoReflect().Descriptor()
		}
		switch t.Kind() {
		case reflect.Slice, reflect.Chan, reflect.Ptr:
			return find(t.Elem(), depth-1)
		case reflect.Struct:
			for i := 0; i < t.NumField(); i++ {
				if t.Field(i).IsExported() {
					if d := find(t.Field(i).Type, depth-1); d != nil {
						return d
					}
				}
			}
		}
		return nil
	}
	for i := 0; i < ft.NumOut(); i++ {
		if d := find(ft.Out(i), 3); d != nil {
			return d
		}
	}
	return nil
}

// randomPaths picks 1-3 field mask paths of md: top-level fields and, for message-typed fields (repeated or not), one level down.
func randomPaths(md protoreflect.MessageDescriptor, p *prng) []string {
	var all []string
	fds := md.Fields()
	for i := 0; i < fds.Len(); i++ {
		fd := fds.Get(i)
		all = append(all, string(fd.Name()))
		if fd.Message() != nil && !fd.IsMap() {
			sub := fd.Message().Fields()
			for j := 0; j < sub.Len() && j < 6; j++ {
				all = append(all, string(fd.Name())+"."+string(sub.Get(j).Name()))
			}
		}
	}
	if len(all) == 0 {
		return nil
	}
	var out []string
	for k := 1 + p.n(3); k > 0; k-- {
		x := all[p.n(len(all))]
		if !contains(out, x) {
			out = append(out, x)
		}
	}
	return out
}
