package verifsim

import (
	"fmt"
	"io"
	"sort"
	"strings"
	"time"

	"google.golang.org/grpc/codes"
	"google.golang.org/grpc/status"
	"google.golang.org/protobuf/proto"
	"google.golang.org/protobuf/types/known/fieldmaskpb"

	"github.com/smart-core-os/sc-golang/internal/testproto"
	"github.com/smart-core-os/sc-golang/pkg/resource"
)

// ---------------------------------------------------------------------------------------------------------------
// Operations on a Value / Collection, how they are applied to the real resource, and the reference model
// (DESIGN.md appendix A). The model never calls pkg/resource or pkg/masks.
// ---------------------------------------------------------------------------------------------------------------

const (
	opSet    = "set"
	opAdd    = "add"
	opUpdate = "update"
	opDelete = "delete"
	opGet    = "get"
	opList   = "list"
)

type wop struct {
	Kind string
	ID   string
	Val  mm

	HasMask bool // update mask present (possibly empty)
	Mask    []string
	Reset   []string // reset mask (nil = none)

	HasExpect   bool // WithExpectedValue
	Expect      mm
	HasCheck    bool // WithExpectedCheck: stored V must equal CheckV, otherwise OutOfRange
	CheckV      int32
	Delta       int64 // != 0: InterceptBefore adds old.N + Delta into the written message's N
	HasDelta    bool
	After       bool // InterceptAfter: new.S = "A<old.V>"
	CreateIfAbs bool
	ExpectAbs   bool
	AllowMiss   bool
	GenID       bool // WithGenIDIfAbsent (+ id callback)
	CreatedCB   bool
	CBMark      bool // the id / created callbacks write into the message that is being written (B = true), as the trait models do with generated ids
	// WithMoreUpdateMask: after the update mask (adds to it; nothing to add to if there is none), or - MoreFirst, only
	// without a mask - before an explicit WithUpdateMask(nil), which still means "no mask: the whole message"
	HasMore     bool
	MoreMask    []string
	MoreFirst   bool
	HasWT       bool
	WT          time.Time
	AllWritable bool // WithAllFieldsWritable
	MoreW       []string

	// reads
	RMaskSet bool
	RMask    []string
	Include  *inclTable
}

func (o wop) String() string {
	var sb strings.Builder
	sb.WriteString(o.Kind)
	if o.ID != "" || o.Kind == opAdd || o.Kind == opUpdate || o.Kind == opDelete {
		fmt.Fprintf(&sb, "(%q)", o.ID)
	}
	if o.Kind == opSet || o.Kind == opAdd || o.Kind == opUpdate {
		sb.WriteString(o.Val.String())
	}
	if o.HasMask {
		fmt.Fprintf(&sb, " mask%v", o.Mask)
	}
	if o.Reset != nil {
		fmt.Fprintf(&sb, " reset%v", o.Reset)
	}
	if o.HasExpect {
		fmt.Fprintf(&sb, " expect%v", o.Expect)
	}
	if o.HasCheck {
		fmt.Fprintf(&sb, " checkV=%d", o.CheckV)
	}
	if o.HasDelta {
		fmt.Fprintf(&sb, " delta%+d", o.Delta)
	}
	if o.After {
		sb.WriteString(" after")
	}
	if o.CreateIfAbs {
		sb.WriteString(" createIfAbsent")
	}
	if o.ExpectAbs {
		sb.WriteString(" expectAbsent")
	}
	if o.AllowMiss {
		sb.WriteString(" allowMissing")
	}
	if o.GenID {
		sb.WriteString(" genID")
	}
	if o.CreatedCB {
		sb.WriteString(" createdCB")
	}
	if o.CBMark {
		sb.WriteString(" callbacksMarkTheMessage")
	}
	if o.HasMore {
		fmt.Fprintf(&sb, " moreMask%v(first=%v)", o.MoreMask, o.MoreFirst)
	}
	if o.HasWT {
		fmt.Fprintf(&sb, " writeTime=%d", o.WT.UnixNano())
	}
	if o.AllWritable {
		sb.WriteString(" allWritable")
	}
	if o.MoreW != nil {
		fmt.Fprintf(&sb, " moreW%v", o.MoreW)
	}
	if o.RMaskSet {
		fmt.Fprintf(&sb, " readMask%v", o.RMask)
	}
	if o.Include != nil {
		fmt.Fprintf(&sb, " include=%s", o.Include)
	}
	return sb.String()
}

// kindSig is the option-set signature of an op (used for distinct-case counting).
func (o wop) kindSig() string {
	s := o.String()
	// strip concrete values: keep letters and punctuation only
	var sb strings.Builder
	for _, r := range s {
		if r >= '0' && r <= '9' {
			continue
		}
		sb.WriteRune(r)
	}
	return sb.String()
}

type wres struct {
	Code    codes.Code
	HasMsg  bool
	Msg     mm
	ID      string // effective (generated) id reported through the id callback
	IDCalls int    // number of id callback invocations
	Created int    // number of created callbacks
	List    []mm   // list result
	Found   bool   // Get on a collection
	NonFlat bool   // the real result carried fields outside the model's
}

func (r wres) String() string {
	var sb strings.Builder
	sb.WriteString(r.Code.String())
	if r.HasMsg {
		sb.WriteString(" " + r.Msg.String())
	}
	if r.ID != "" {
		fmt.Fprintf(&sb, " id=%q", r.ID)
	}
	if r.IDCalls != 0 {
		fmt.Fprintf(&sb, " idcb=%d", r.IDCalls)
	}
	if r.Created != 0 {
		fmt.Fprintf(&sb, " created=%d", r.Created)
	}
	if r.List != nil {
		fmt.Fprintf(&sb, " list=%v", r.List)
	}
	if r.Found {
		sb.WriteString(" found")
	}
	return sb.String()
}

// inclTable is an include predicate given as a truth table over (id, V of the value or "absent").
type inclTable struct {
	ids  []string
	vals []int32 // V values; index len(vals) = absent (nil message)
	bits uint64
	// arith: instead of a table, a fixed arithmetic predicate on (id, V) for scenarios whose values are unique numbers
	arith bool
}

func (t *inclTable) String() string {
	if t.arith {
		return "arith"
	}
	return fmt.Sprintf("tt%x", t.bits)
}

func (t *inclTable) idx(id string, absent bool, v int32) int {
	ii := -1
	for i, x := range t.ids {
		if x == id {
			ii = i
		}
	}
	if ii < 0 {
		return -1
	}
	vi := len(t.vals)
	if !absent {
		vi = -1
		for i, x := range t.vals {
			if x == v {
				vi = i
			}
		}
		if vi < 0 {
			return -1
		}
	}
	return ii*(len(t.vals)+1) + vi
}

func (t *inclTable) eval(id string, absent bool, v int32) bool {
	if t.arith {
		if absent {
			return false
		}
		if id == "a" {
			return v%2 == 0
		}
		return v%3 != 0
	}
	i := t.idx(id, absent, v)
	if i < 0 {
		return false
	}
	return t.bits&(1<<uint(i)) != 0
}

func (t *inclTable) fn() resource.FilterFunc {
	return func(id string, item proto.Message) bool {
		if item == nil {
			return t.eval(id, true, 0)
		}
		m, _ := fromPB(item)
		return t.eval(id, false, m.V)
	}
}

// ---- clock and rng seams ---------------------------------------------------------------------------------------

// simClock is the injected resource.Clock: fake time + offset, strictly increasing by 1ns per read unless a jump fault
// is injected. Reads are recorded so that oracles can bound change times by call windows.
type simClock struct {
	// plain words read and written through the kernel's uninstrumented helpers: a clock that several callers read must not
	// look like synchronisation between them to the race detector (see kernel.go)
	offset int64
	reads  int64
	last   int64
}

func (c *simClock) Now() time.Time {
	simYield("clock.now") // the injected clock is a seam the code already has: a task may be preempted at every reading
	addi64(&c.reads, 1)
	off := addi64(&c.offset, 1)
	t := time.Now().Add(time.Duration(off))
	addi64(&c.last, t.UnixNano()-ldi64(&c.last))
	return t
}

func (c *simClock) Jump(d time.Duration) { addi64(&c.offset, int64(d)) }

// Peek returns a reading without ticking (harness use only).
func (c *simClock) Peek() time.Time {
	return time.Now().Add(time.Duration(ldi64(&c.offset)))
}

// simRNG is the injected id generator source.
type simRNG struct {
	mode  int // 0 counter, 1 scripted collisions then counter, 2 all zero, 3 short reads + errors
	n     uint64
	queue [][]byte // scripted outputs (used first)
	reads int
}

func (r *simRNG) Read(p []byte) (int, error) {
	simYield("rng.read")
	r.reads++
	if len(r.queue) > 0 {
		q := r.queue[0]
		r.queue = r.queue[1:]
		for i := range p {
			if i < len(q) {
				p[i] = q[i]
			} else {
				p[i] = 0
			}
		}
		return len(p), nil
	}
	switch r.mode {
	case 2:
		for i := range p {
			p[i] = 0
		}
		return len(p), nil
	case 3:
		// short read with an error: only the first byte is filled
		r.n++
		for i := range p {
			p[i] = 0
		}
		if len(p) > 0 {
			p[0] = byte(r.n)
		}
		return 1, io.ErrUnexpectedEOF
	}
	r.n++
	x := splitmix(r.n)
	for i := range p {
		p[i] = byte(x >> (8 * uint(i%8)))
		if i%8 == 7 {
			x = splitmix(x)
		}
	}
	return len(p), nil
}

// ---- the real resource under test --------------------------------------------------------------------------------

type resCfg struct {
	Coll       bool
	HasW       bool
	W          []string
	LowerIDs   bool // id interceptor: strings.ToLower
	Equiv      bool // WithNoDuplicates-like equivalence on the flat fields
	Ballast    bool // every written message carries a constant nested part (see ballast)
	EquivNoV   bool // WithMessageEquivalence: messages that differ only in V are equivalent
	EquivTolN  bool // with EquivNoV: N within 1 of each other also counts as equivalent (a tolerance: not transitive)
	Initial    map[string]mm
	HasInitial bool // Value: initial value present
	InitialVal mm
}

type realRes struct {
	cfg   resCfg
	val   *resource.Value
	col   *resource.Collection
	clock *simClock
	rng   *simRNG
}

func fm(paths []string) *fieldmaskpb.FieldMask {
	return &fieldmaskpb.FieldMask{Paths: append([]string{}, paths...)}
}

func newRealRes(cfg resCfg, clock *simClock, rng *simRNG) *realRes {
	r := newRealResWith(cfg, clock, rng)
	r.rng = rng
	return r
}

func newRealResWith(cfg resCfg, clock *simClock, rng io.Reader) *realRes {
	r := &realRes{cfg: cfg, clock: clock}
	opts := []resource.Option{resource.WithClock(clock), resource.WithRNG(rng)}
	if cfg.HasW {
		opts = append(opts, resource.WithWritableFields(fm(cfg.W)))
	}
	if cfg.Equiv {
		opts = append(opts, resource.WithNoDuplicates())
	}
	if cfg.EquivNoV {
		opts = append(opts, resource.WithMessageEquivalence(func(x, y proto.Message) bool {
			if isNilMsg(x) || isNilMsg(y) {
				return isNilMsg(x) && isNilMsg(y)
			}
			a, b := proto.Clone(x).(*testproto.TestAllTypes), proto.Clone(y).(*testproto.TestAllTypes)
			a.DefaultInt32, b.DefaultInt32 = 0, 0
			if d := a.DefaultInt64 - b.DefaultInt64; cfg.EquivTolN && d >= -1 && d <= 1 {
				a.DefaultInt64, b.DefaultInt64 = 0, 0
			}
			return proto.Equal(a, b)
		}))
	}
	if cfg.Coll {
		if cfg.LowerIDs {
			opts = append(opts, resource.WithIDInterceptor(strings.ToLower))
		}
		ids := make([]string, 0, len(cfg.Initial))
		for id := range cfg.Initial {
			ids = append(ids, id)
		}
		sort.Strings(ids)
		for _, id := range ids {
			opts = append(opts, resource.WithInitialRecord(id, cfg.Initial[id].pbWith(cfg.Ballast)))
		}
		r.col = resource.NewCollection(opts...)
	} else {
		if cfg.HasInitial {
			opts = append(opts, resource.WithInitialValue(cfg.InitialVal.pbWith(cfg.Ballast)))
		}
		r.val = resource.NewValue(opts...)
	}
	return r
}

// written is the message handed to the write. For an odd delta the library's own interceptor style is used (see writeOpts):
// the message carries the delta itself.
func (o wop) written(withBallast bool) *testproto.TestAllTypes {
	m := o.Val.pbWith(withBallast)
	if o.HasDelta && o.Delta%2 != 0 {
		m.DefaultInt64 = o.Delta
	}
	return m
}

var errCheck = status.Error(codes.OutOfRange, "expected check failed")

func (o wop) writeOpts(res *wres, withBallast bool) []resource.WriteOption {
	return o.writeOptsMsg(res, withBallast, nil)
}

// writeOptsMsg: msg is the message handed to the write (callbacks that complete it - CBMark - write into it).
func (o wop) writeOptsMsg(res *wres, withBallast bool, msg *testproto.TestAllTypes) []resource.WriteOption {
	var opts []resource.WriteOption
	if o.HasMore && o.MoreFirst && !o.HasMask {
		opts = append(opts, resource.WithMoreUpdateMask(fm(o.MoreMask)), resource.WithUpdateMask(nil))
	}
	if o.HasMask {
		opts = append(opts, resource.WithUpdateMask(fm(o.Mask)))
	}
	if o.HasMore && !o.MoreFirst {
		opts = append(opts, resource.WithMoreUpdateMask(fm(o.MoreMask)))
	}
	if o.Reset != nil {
		opts = append(opts, resource.WithResetMask(fm(o.Reset)))
	}
	if o.HasExpect {
		opts = append(opts, resource.WithExpectedValue(o.Expect.pbWith(withBallast)))
	}
	if o.HasCheck {
		want := o.CheckV
		opts = append(opts, resource.WithExpectedCheck(func(old proto.Message) error {
			simYield("cb.check")
			var v int32
			if old != nil {
				if t, ok := old.(*testproto.TestAllTypes); ok && t != nil {
					v = t.DefaultInt32
				}
			}
			if v != want {
				return errCheck
			}
			return nil
		}))
	}
	if o.HasDelta {
		d := o.Delta
		opts = append(opts, resource.InterceptBefore(func(old, change proto.Message) {
			simYield("cb.before")
			var n int64
			if t, ok := old.(*testproto.TestAllTypes); ok && t != nil {
				n = t.DefaultInt64
			}
			c := change.(*testproto.TestAllTypes)
			if d%2 == 0 {
				c.DefaultInt64 = n + d
				return
			}
			// the style of the library's own delta interceptors (countpb: `tValue.Added += tOld.Added`): the written message
			// carries the delta and the stored value is folded into it in place
			c.DefaultInt64 += n // (apply put the delta there)
		}))
	}
	if o.After {
		opts = append(opts, resource.InterceptAfter(func(old, new proto.Message) {
			simYield("cb.after")
			var v int32
			if t, ok := old.(*testproto.TestAllTypes); ok && t != nil {
				v = t.DefaultInt32
			}
			new.(*testproto.TestAllTypes).DefaultString = fmt.Sprintf("A%d", v)
		}))
	}
	if o.CreateIfAbs {
		opts = append(opts, resource.WithCreateIfAbsent())
	}
	if o.ExpectAbs {
		opts = append(opts, resource.WithExpectAbsent())
	}
	if o.AllowMiss {
		opts = append(opts, resource.WithAllowMissing(true))
	}
	if o.GenID {
		opts = append(opts, resource.WithGenIDIfAbsent(), resource.WithIDCallback(func(id string) {
			simYield("cb.id")
			res.ID = id
			res.IDCalls++
			if o.CBMark && msg != nil {
				msg.DefaultBool = true
			}
		}))
	}
	if o.CreatedCB {
		opts = append(opts, resource.WithCreatedCallback(func() {
			simYield("cb.created")
			res.Created++
			if o.CBMark && msg != nil {
				msg.DefaultBool = true
			}
		}))
	}
	if o.HasWT {
		opts = append(opts, resource.WithWriteTime(o.WT))
	}
	if o.AllWritable {
		opts = append(opts, resource.WithAllFieldsWritable())
	}
	if o.MoreW != nil {
		opts = append(opts, resource.WithMoreWritableFields(fm(o.MoreW)))
	}
	return opts
}

func (o wop) readOpts() []resource.ReadOption {
	var opts []resource.ReadOption
	if o.RMaskSet {
		opts = append(opts, resource.WithReadMask(fm(o.RMask)))
	}
	if o.Include != nil {
		opts = append(opts, resource.WithInclude(o.Include.fn()))
	}
	return opts
}

func errCode(err error) codes.Code {
	if err == nil {
		return codes.OK
	}
	if s, ok := status.FromError(err); ok {
		return s.Code()
	}
	return codes.Unknown
}

// apply performs op on the real resource.
func (r *realRes) apply(o wop) wres {
	var res wres
	setMsg := func(p proto.Message) {
		if p == nil {
			return
		}
		if t, ok := p.(*testproto.TestAllTypes); ok && t == nil {
			return
		}
		m, flat := fromPB(p)
		res.HasMsg, res.Msg = true, m
		if !flat {
			res.NonFlat = true
		}
	}
	switch o.Kind {
	case opSet:
		p, err := r.val.Set(o.written(r.cfg.Ballast), o.writeOpts(&res, r.cfg.Ballast)...)
		res.Code = errCode(err)
		setMsg(p)
	case opAdd:
		msg := o.written(r.cfg.Ballast)
		p, err := r.col.Add(o.ID, msg, o.writeOptsMsg(&res, r.cfg.Ballast, msg)...)
		res.Code = errCode(err)
		setMsg(p)
	case opUpdate:
		msg := o.written(r.cfg.Ballast)
		p, err := r.col.Update(o.ID, msg, o.writeOptsMsg(&res, r.cfg.Ballast, msg)...)
		res.Code = errCode(err)
		setMsg(p)
	case opDelete:
		p, err := r.col.Delete(o.ID, o.writeOpts(&res, r.cfg.Ballast)...)
		res.Code = errCode(err)
		setMsg(p)
	case opGet:
		if r.cfg.Coll {
			p, ok := r.col.Get(o.ID, o.readOpts()...)
			res.Found = ok
			if ok {
				setMsg(p)
			}
		} else {
			setMsg(r.val.Get(o.readOpts()...))
		}
	case opList:
		res.List = []mm{}
		for _, p := range r.col.List(o.readOpts()...) {
			m, flat := fromPB(p)
			if !flat {
				res.NonFlat = true
			}
			res.List = append(res.List, m)
		}
	}
	return res
}

// ---- reference model ------------------------------------------------------------------------------------------------

type mitem struct {
	M mm
}

type model struct {
	cfg     resCfg
	present bool // Value: has a value
	val     mm
	items   map[string]mm
	usedIDs map[string]bool // every id ever present (for "generated id unused")
}

func newModel(cfg resCfg) *model {
	m := &model{cfg: cfg, items: map[string]mm{}, usedIDs: map[string]bool{}}
	if cfg.Coll {
		for id, v := range cfg.Initial {
			m.items[id] = v
			m.usedIDs[id] = true
		}
	} else if cfg.HasInitial {
		m.present = true
		m.val = cfg.InitialVal
	}
	return m
}

func (m *model) clone() *model {
	c := &model{cfg: m.cfg, present: m.present, val: m.val, items: map[string]mm{}, usedIDs: m.usedIDs}
	for k, v := range m.items {
		c.items[k] = v
	}
	return c
}

func contains(l []string, s string) bool {
	for _, x := range l {
		if x == s {
			return true
		}
	}
	return false
}

func knownField(f string) bool { return contains(allFields, f) }

// writable returns the effective writable set for op (nil, false = every field).
func (m *model) writable(o wop) ([]string, bool) {
	if o.AllWritable || !m.cfg.HasW {
		return nil, false
	}
	w := append([]string{}, m.cfg.W...)
	for _, f := range o.MoreW {
		if !contains(w, f) {
			w = append(w, f)
		}
	}
	return w, true
}

// validate mirrors the documented rejection rules; returns OK or the error code.
func (m *model) validate(o wop) codes.Code {
	if o.HasMask {
		for _, f := range o.Mask {
			if !knownField(f) {
				return codes.InvalidArgument
			}
		}
		if w, has := m.writable(o); has {
			for _, f := range o.Mask {
				if !contains(w, f) {
					return codes.InvalidArgument
				}
			}
		}
	}
	for _, f := range o.Reset {
		if !knownField(f) {
			return codes.Internal
		}
	}
	return codes.OK
}

// merge computes the new message from old (hasOld=false ⇒ empty) and the op.
// written is the message after the before-interceptor ran.
func (m *model) merge(old mm, written mm, o wop) mm {
	dst := old
	w, hasW := m.writable(o)
	eff := func(f string) bool { return !hasW || contains(w, f) }
	if o.HasMask {
		if len(o.Mask) == 0 {
			return dst // empty non-nil mask: no change at all
		}
		for _, f := range o.Mask {
			if eff(f) {
				dst.copyField(f, written)
			}
		}
	} else {
		for _, f := range allFields {
			if eff(f) {
				dst.copyField(f, written)
			}
		}
	}
	for _, f := range o.Reset {
		dst.clearField(f)
	}
	return dst
}

// change applies preconditions, interceptors and merge. oldPresent=false means "no current message at all" (Value
// without a value); for a collection create the old message is the empty message and oldPresent is true.
func (m *model) change(old mm, oldPresent bool, o wop) (mm, codes.Code) {
	if o.HasExpect {
		if !oldPresent || old != o.Expect {
			return mm{}, codes.FailedPrecondition
		}
	}
	if o.HasCheck {
		if old.V != o.CheckV {
			return mm{}, codes.OutOfRange
		}
	}
	written := o.Val
	if o.HasDelta {
		written.N = old.N + o.Delta
	}
	n := m.merge(old, written, o)
	if o.After {
		n.S = fmt.Sprintf("A%d", old.V)
	}
	return n, codes.OK
}

func (m *model) mapID(id string) string {
	if m.cfg.LowerIDs {
		return strings.ToLower(id)
	}
	return id
}

// apply runs op on the model. genID is the id the implementation generated (the model cannot predict the bytes; the
// oracle checks the id's properties separately) — only used when op.GenID and the given id is empty.
func (m *model) apply(o wop, genID string) wres {
	var res wres
	if o.HasMore && o.HasMask && !o.MoreFirst {
		// more paths after a mask: the mask is the union
		mask := append([]string{}, o.Mask...)
		for _, p := range o.MoreMask {
			if !contains(mask, p) {
				mask = append(mask, p)
			}
		}
		o.Mask = mask
	}
	switch o.Kind {
	case opSet:
		if c := m.validate(o); c != codes.OK {
			res.Code = c
			return res
		}
		n, c := m.change(m.val, m.present, o)
		if c != codes.OK {
			res.Code = c
			return res
		}
		m.val, m.present = n, true
		res.HasMsg, res.Msg = true, n
	case opAdd, opUpdate:
		if o.Kind == opAdd {
			o.ExpectAbs, o.CreateIfAbs = true, true
		}
		id := m.mapID(o.ID)
		if c := m.validate(o); c != codes.OK {
			res.Code = c
			return res
		}
		if id == "" && o.GenID {
			if genID == "" {
				// generation failed in the implementation: nothing changes
				res.Code = codes.Aborted
				return res
			}
			// a generated id is an id like any other: the item must be reachable through it afterwards
			id = m.mapID(genID)
			res.ID = genID
			res.IDCalls = 1
		}
		old, exists := m.items[id]
		if exists {
			if o.ExpectAbs {
				res.Code = codes.AlreadyExists
				return res
			}
		} else {
			if !o.CreateIfAbs {
				res.Code = codes.NotFound
				return res
			}
			old = mm{}
			if o.CreatedCB {
				res.Created = 1
				if o.CBMark {
					o.Val.B = true
				}
			}
		}
		if o.CBMark && res.IDCalls == 1 {
			o.Val.B = true
		}
		n, c := m.change(old, true, o)
		if c != codes.OK {
			res.Code = c
			return res
		}
		m.items[id] = n
		m.usedIDs[id] = true
		res.HasMsg, res.Msg = true, n
	case opDelete:
		id := m.mapID(o.ID)
		old, exists := m.items[id]
		if !exists {
			if o.AllowMiss {
				return res
			}
			res.Code = codes.NotFound
			return res
		}
		if o.HasCheck && old.V != o.CheckV {
			res.Code = codes.OutOfRange
			res.HasMsg, res.Msg = true, old
			return res
		}
		if o.HasExpect && old != o.Expect {
			res.Code = codes.FailedPrecondition
			res.HasMsg, res.Msg = true, old
			return res
		}
		delete(m.items, id)
		res.HasMsg, res.Msg = true, old
	case opGet:
		if m.cfg.Coll {
			v, ok := m.items[m.mapID(o.ID)]
			res.Found = ok
			if ok {
				res.HasMsg, res.Msg = true, v.project(o.RMask, !o.RMaskSet)
			}
		} else if m.present {
			res.HasMsg, res.Msg = true, m.val.project(o.RMask, !o.RMaskSet)
		}
	case opList:
		res.List = []mm{}
		for _, id := range m.sortedIDs() {
			v := m.items[id]
			if o.Include != nil && !o.Include.eval(id, false, v.V) {
				continue
			}
			res.List = append(res.List, v.project(o.RMask, !o.RMaskSet))
		}
	}
	return res
}

func (m *model) sortedIDs() []string {
	ids := make([]string, 0, len(m.items))
	for id := range m.items {
		ids = append(ids, id)
	}
	sort.Strings(ids)
	return ids
}

func (m *model) contentsString() string {
	if !m.cfg.Coll {
		if !m.present {
			return "<none>"
		}
		return m.val.String()
	}
	var sb strings.Builder
	for _, id := range m.sortedIDs() {
		fmt.Fprintf(&sb, "%s=%v ", id, m.items[id])
	}
	return sb.String()
}

func sameRes(a, b wres) bool {
	if a.Code != b.Code || a.HasMsg != b.HasMsg || a.Found != b.Found || a.IDCalls != b.IDCalls || a.Created != b.Created || a.ID != b.ID {
		return false
	}
	if a.HasMsg && a.Msg != b.Msg {
		return false
	}
	if (a.List == nil) != (b.List == nil) || len(a.List) != len(b.List) {
		return false
	}
	for i := range a.List {
		if a.List[i] != b.List[i] {
			return false
		}
	}
	return true
}
