package verifsim

import (
	"encoding/json"
	"flag"
	"fmt"
	"os"
	"runtime"
	"sort"
	"strings"
	"sync/atomic"
	"testing"
	"time"
)

var (
	fScn      = flag.String("sim.scn", "", "scenario name")
	fSeed     = flag.Int64("sim.seed", 1, "VERIF_SEED")
	fFrom     = flag.Int64("sim.from", 0, "first run index")
	fCount    = flag.Int64("sim.count", 100, "number of runs")
	fOut      = flag.String("sim.out", "", "result file (JSON)")
	fReplay   = flag.String("sim.replay", "", "replay file")
	fShrink   = flag.Bool("sim.shrink", true, "minimise failing tapes")
	fList     = flag.Bool("sim.list", false, "list scenarios as JSON")
	fKnown    = flag.String("sim.known", "", "known findings file")
	fMaxFail  = flag.Int("sim.maxfail", 3, "stop after this many distinct unknown violations")
	fBudget   = flag.Duration("sim.time", 0, "wall-clock budget for this worker (0 = none)")
	fVerbose  = flag.Bool("sim.v", false, "print traces")
	fSamples  = flag.Int("sim.samples", 3, "number of sample traces to keep")
	fFpOut    = flag.String("sim.fpout", "", "write distinct non-trivial fingerprints (binary uint64) here")
	fMerge    = flag.String("sim.merge", "", "comma separated fingerprint files: print the number of distinct values")
	fOnly     = flag.String("sim.only", "", "comma separated violation classes this check reports (others are counted as observations)")
	fProgress = flag.String("sim.progress", "", "file that always holds the index of the run in progress (crash attribution)")
	fHashes   = flag.String("sim.hashes", "", "write one trace hash per run to this file (determinism self-test)")
	fRetries  = flag.Int("sim.retries", 1, "replay attempts (self-certifying classes may need several)")
)

var progress, curRun atomic.Int64

type knownFinding struct {
	Property string         `json:"property"`
	Class    string         `json:"class"`
	Key      map[string]any `json:"key"`
	What     string         `json:"what"`
	Status   string         `json:"status"`
	ID       string         `json:"id"`
}

func loadKnown(path, prop string) []knownFinding {
	if path == "" {
		return nil
	}
	b, err := os.ReadFile(path)
	if err != nil {
		return nil
	}
	var f struct {
		Findings []knownFinding `json:"findings"`
	}
	if err := json.Unmarshal(b, &f); err != nil {
		fmt.Fprintln(os.Stderr, "known findings file unreadable:", err)
		os.Exit(2)
	}
	var out []knownFinding
	for _, k := range f.Findings {
		if k.Status == "open" && k.Property == prop {
			out = append(out, k)
		}
	}
	return out
}

func (k knownFinding) matches(v Violation) bool {
	if k.Class != v.Class {
		return false
	}
	for kk, kv := range k.Key {
		vv, ok := v.Key[kk]
		if !ok || fmt.Sprint(vv) != fmt.Sprint(kv) {
			return false
		}
	}
	return true
}

// split separates violations into unknown ones and (ids of) matched known findings.
func split(vs []Violation, known []knownFinding) (unknown []Violation, matched []string) {
	for _, v := range vs {
		hit := ""
		for _, k := range known {
			if k.matches(v) {
				hit = k.ID
				break
			}
		}
		if hit != "" {
			matched = append(matched, hit)
		} else {
			unknown = append(unknown, v)
		}
	}
	return
}

type failure struct {
	Scenario   string    `json:"scenario"`
	Property   string    `json:"property"`
	Seed       int64     `json:"seed"`
	Run        int64     `json:"run"`
	Tape       []uint32  `json:"tape"`
	OrigLen    int       `json:"orig_tape_len"`
	Violation  Violation `json:"violation"`
	Trace      []string  `json:"trace"`
	Notes      []string  `json:"notes"`
	TraceHash  string    `json:"trace_hash"`
	ShrinkRuns int       `json:"shrink_runs"`
	Repro      string    `json:"repro,omitempty"`
	// RuntimeChoice: the run contains select statements with several ready cases, which the Go runtime resolves at random
	RuntimeChoice bool `json:"runtime_choice,omitempty"`
}

type workerOut struct {
	Scenario      string              `json:"scenario"`
	Property      string              `json:"property"`
	Seed          int64               `json:"seed"`
	From          int64               `json:"from"`
	Runs          int64               `json:"runs"`
	Nontrivial    int64               `json:"nontrivial_runs"`
	Distinct      int64               `json:"distinct_nontrivial"`
	DistinctAll   int64               `json:"distinct_all"`
	Steps         int64               `json:"steps"`
	Switches      int64               `json:"switches"`
	Overlaps      int64               `json:"overlaps"`
	Truncated     int64               `json:"truncated"`
	SimTimeNs     int64               `json:"sim_time_ns"`
	Faults        map[string]int64    `json:"faults"`
	Hits          map[string]int64    `json:"hits"`
	Known         map[string]int64    `json:"known"`
	KnownSample   map[string]*failure `json:"known_sample"`
	Failures      []*failure          `json:"failures"`
	Samples       []any               `json:"samples"`
	WallS         float64             `json:"wall_s"`
	Rechecked     int64               `json:"determinism_rechecks"`
	Nondet        int64               `json:"determinism_mismatches"`
	Transient     int64               `json:"determinism_transient_differences"`
	NondetRuns    []int64             `json:"determinism_mismatch_runs,omitempty"`
	RuntimeChoice int64               `json:"runtime_choice_runs"`
	Real          []string            `json:"real"`
	Stub          []string            `json:"stub"`
	Doc           string              `json:"doc"`
	Cases         []string            `json:"cases"`
	CaseTotal     int                 `json:"case_total"`
	Info          any                 `json:"info,omitempty"`
	Observed      map[string]int64    `json:"observed_other_classes"`
}

func TestMain(m *testing.M) {
	flag.Parse()
	if *fList {
		type ent struct {
			Name, Prop, Doc string
			Faulty          bool
		}
		var l []ent
		for _, n := range scenarioOrder {
			s := scenarios[n]
			l = append(l, ent{s.Name, s.Prop, s.Doc, s.Faulty})
		}
		b, _ := json.Marshal(l)
		fmt.Println(string(b))
		os.Exit(0)
	}
	if *fMerge != "" {
		os.Exit(mergeFingerprints(strings.Split(*fMerge, ",")))
	}
	// wall-clock watchdog, outside any bubble
	go func() {
		last := int64(-1)
		lastChange := time.Now()
		for {
			time.Sleep(2 * time.Second)
			p := progress.Load()
			if p != last {
				last = p
				lastChange = time.Now()
				continue
			}
			if time.Since(lastChange) > 30*time.Second {
				buf := make([]byte, 4<<20)
				n := runtime.Stack(buf, true)
				fmt.Fprintf(os.Stderr, "STUCK run=%d\n%s\n", curRun.Load(), buf[:n])
				os.Exit(3)
			}
		}
	}()
	os.Exit(m.Run())
}

func TestSim(t *testing.T) {
	if *fReplay != "" {
		replayMain(t)
		return
	}
	if *fScn == "" {
		t.Skip("no scenario")
	}
	scn := scenarios[*fScn]
	if scn == nil {
		fmt.Fprintln(os.Stderr, "unknown scenario", *fScn)
		os.Exit(2)
	}
	known := loadKnown(*fKnown, scn.Prop)
	start := time.Now()
	out := &workerOut{Scenario: scn.Name, Property: scn.Prop, Seed: *fSeed, From: *fFrom, Faults: map[string]int64{}, Hits: map[string]int64{},
		Known: map[string]int64{}, KnownSample: map[string]*failure{}, Real: scn.Real, Stub: scn.Stub, Doc: scn.Doc}
	fpsNon := map[uint64]struct{}{}
	fpsAll := map[uint64]struct{}{}
	seenClass := map[string]bool{}
	cases := map[string]struct{}{}
	var hashes strings.Builder
	var progressFile *os.File
	if *fProgress != "" {
		progressFile, _ = os.Create(*fProgress)
	}
	for i := *fFrom; i < *fFrom+*fCount; i++ {
		if progressFile != nil {
			_, _ = progressFile.WriteAt([]byte(fmt.Sprintf("%-20d", i)), 0)
		}
		if *fBudget > 0 && time.Since(start) > *fBudget {
			break
		}
		curRun.Store(i)
		tape := NewTape(*fSeed, scn.Name, i)
		wantTrace := len(out.Samples) < *fSamples || *fVerbose
		res := execute(t, scn, tape, wantTrace)
		out.Runs++
		if *fHashes != "" {
			if res.RuntimeChoice {
				fmt.Fprintf(&hashes, "%d runtime-choice\n", i)
			} else {
				fmt.Fprintf(&hashes, "%d %016x %d\n", i, res.TraceHash, res.Steps)
			}
		}
		out.Steps += res.Steps
		out.Switches += int64(res.Switches)
		out.Overlaps += res.Overlaps
		out.SimTimeNs += int64(res.SimTime)
		if res.Truncated {
			out.Truncated++
		}
		for k, v := range res.Faults {
			out.Faults[k] += int64(v)
		}
		for k, v := range res.Hits {
			out.Hits[k] += v
		}
		fpsAll[res.Fingerprint] = struct{}{}
		if res.CaseTotal > out.CaseTotal {
			out.CaseTotal = res.CaseTotal
		}
		if res.Case != "" && len(cases) < 20000 {
			cases[res.Case] = struct{}{}
		}
		if res.Nontrivial {
			out.Nontrivial++
			fpsNon[res.Fingerprint] = struct{}{}
		}
		if wantTrace && (res.Nontrivial || i-*fFrom > 20) && len(out.Samples) < *fSamples {
			out.Samples = append(out.Samples, map[string]any{"run": i, "schedule": res.Trace, "observations": res.Notes, "faults": res.Faults})
		}
		if *fVerbose {
			fmt.Printf("run %d steps=%d trace=%v notes=%v viol=%v\n", i, res.Steps, res.Trace, res.Notes, res.Violations)
		}
		// on-the-fly determinism re-check of 1% of the runs
		if i%100 == 7 && !res.RuntimeChoice {
			res2 := execute(t, scn, ReplayTape(res.Tape), false)
			out.Rechecked++
			if res2.TraceHash != res.TraceHash {
				// Once in several million runs a re-execution differs although the run is reproducible (on a loaded machine the
				// Go runtime occasionally orders the library's eagerly running goroutines differently, e.g. when a contended
				// sync.Mutex enters starvation mode after 1 ms of real time). Such a transient difference is told apart from
				// a scenario that is not a function of its tape by executing the run twice more.
				// (four more executions: a reproducible run shows one and the same trace in at least four of the six; on a
				// heavily oversubscribed machine two deviations in a row have been seen, three of six never)
				// (later: on a machine oversubscribed four times over - sub-agents, three lanes of seeded changes, a
				// sensitivity run and a thorough run at once - three deviating executions out of six were seen once in 50 000
				// re-checks; the deviations come in bursts, so the worker now lets 50 ms of real time pass first and looks at
				// ten executions, of which at least seven must agree)
				time.Sleep(50 * time.Millisecond)
				tally := map[uint64]int{res.TraceHash: 1}
				tally[res2.TraceHash]++
				for k := 0; k < 8; k++ {
					tally[execute(t, scn, ReplayTape(res.Tape), false).TraceHash]++
				}
				most := 0
				for _, n := range tally {
					if n > most {
						most = n
					}
				}
				if most >= 7 {
					out.Transient++ // (events, not executions)
				} else {
					out.Nondet++
				}
				if len(out.NondetRuns) < 5 {
					out.NondetRuns = append(out.NondetRuns, i)
				}
			}
		}
		if res.RuntimeChoice {
			out.RuntimeChoice++
		}
		if len(res.Violations) == 0 {
			continue
		}
		if *fOnly != "" {
			var keep []Violation
			for _, v := range res.Violations {
				if strings.Contains(","+*fOnly+",", ","+v.Class+",") || strings.HasPrefix(v.Class, "harness") {
					keep = append(keep, v)
				} else {
					if out.Observed == nil {
						out.Observed = map[string]int64{}
					}
					out.Observed[v.Class]++
				}
			}
			res.Violations = keep
			if len(keep) == 0 {
				continue
			}
		}
		unknown, matched := split(res.Violations, known)
		for _, id := range matched {
			out.Known[id]++
			if out.KnownSample[id] == nil {
				for _, v := range res.Violations {
					for _, k := range known {
						if k.ID == id && k.matches(v) && out.KnownSample[id] == nil {
							out.KnownSample[id] = &failure{Scenario: scn.Name, Property: scn.Prop, Seed: *fSeed, Run: i, Tape: res.Tape, Violation: v}
						}
					}
				}
			}
		}
		if len(unknown) == 0 {
			continue
		}
		stop := false
		for _, v := range unknown {
			sig := v.Class + "|" + keySig(v.Key)
			if seenClass[sig] {
				continue
			}
			seenClass[sig] = true
			out.Failures = append(out.Failures, minimise(t, scn, i, res, v, known))
			if len(out.Failures) >= *fMaxFail {
				stop = true
				break
			}
		}
		if stop {
			break
		}
	}
	for c := range cases {
		out.Cases = append(out.Cases, c)
	}
	sort.Strings(out.Cases)
	if *fHashes != "" {
		_ = os.WriteFile(*fHashes, []byte(hashes.String()), 0o644)
	}
	if scn.Info != nil {
		out.Info = scn.Info()
	}
	out.Distinct = int64(len(fpsNon))
	out.DistinctAll = int64(len(fpsAll))
	out.WallS = time.Since(start).Seconds()
	if *fFpOut != "" {
		writeFingerprints(*fFpOut, fpsNon)
	}
	b, _ := json.Marshal(out)
	if *fOut != "" {
		if err := os.WriteFile(*fOut, b, 0o644); err != nil {
			fmt.Fprintln(os.Stderr, err)
			os.Exit(2)
		}
	} else {
		fmt.Println(string(b))
	}
}

// minimise shrinks the tape of a failing run for violation v and returns the failure record.
func minimise(t *testing.T, scn *Scenario, i int64, res *RunResult, v Violation, known []knownFinding) *failure {
	f := &failure{Scenario: scn.Name, Property: scn.Prop, Seed: *fSeed, Run: i, Tape: res.Tape, OrigLen: len(res.Tape), Violation: v, RuntimeChoice: res.RuntimeChoice}
	if *fShrink && !strings.HasPrefix(v.Class, "harness") && v.Class != "race" {
		f.Tape, f.ShrinkRuns = shrink(t, scn, res.Tape, v.Class, known)
	}
	// final traced run of the minimised tape
	fin := execute(t, scn, ReplayTape(f.Tape), true)
	found := false
	for _, x := range fin.Violations {
		if x.Class == v.Class {
			f.Violation = x
			found = true
			break
		}
	}
	if v.Class == "race" {
		// the race runtime reports each pair of stacks once per process: an in-process re-run cannot show it again
		found = true
	}
	if found {
		f.Trace = fin.Trace
		f.Notes = fin.Notes
		f.TraceHash = fmt.Sprintf("%016x", fin.TraceHash)
		f.Tape = trimZeros(fin.Tape)
	} else {
		// shrinking lost the failure (nondeterminism): keep the original
		f.Tape = res.Tape
		f.Repro = "minimised tape did not reproduce; original kept"
		fin = execute(t, scn, ReplayTape(f.Tape), true)
		f.Trace, f.Notes, f.TraceHash = fin.Trace, fin.Notes, fmt.Sprintf("%016x", fin.TraceHash)
	}
	return f
}

func keySig(k map[string]any) string {
	var ks []string
	for kk := range k {
		ks = append(ks, kk)
	}
	sort.Strings(ks)
	var sb strings.Builder
	for _, kk := range ks {
		fmt.Fprintf(&sb, "%s=%v;", kk, k[kk])
	}
	return sb.String()
}

func trimZeros(t []uint32) []uint32 {
	n := len(t)
	for n > 0 && t[n-1] == 0 {
		n--
	}
	return append([]uint32(nil), t[:n]...)
}

// shrink minimises a failing tape by delta debugging, keeping candidates that fail with the same violation class.
func shrink(t *testing.T, scn *Scenario, tape []uint32, class string, known []knownFinding) ([]uint32, int) {
	runs := 0
	fails := func(c []uint32) bool {
		runs++
		r := execute(t, scn, ReplayTape(c), false)
		u, _ := split(r.Violations, known)
		for _, v := range u {
			if v.Class == class {
				return true
			}
		}
		return false
	}
	cur := trimZeros(tape)
	if !fails(cur) {
		return tape, runs
	}
	budget := 1500
	improved := true
	for improved && runs < budget {
		improved = false
		// truncate
		for n := len(cur) / 2; n >= 1 && runs < budget; n /= 2 {
			for len(cur) > n {
				c := append([]uint32(nil), cur[:len(cur)-n]...)
				if fails(c) {
					cur = trimZeros(c)
					improved = true
				} else {
					break
				}
				if runs >= budget {
					break
				}
			}
		}
		// delete blocks
		for n := len(cur) / 2; n >= 1 && runs < budget; n /= 2 {
			for i := 0; i+n <= len(cur) && runs < budget; {
				c := append(append([]uint32(nil), cur[:i]...), cur[i+n:]...)
				if fails(c) {
					cur = trimZeros(c)
					improved = true
				} else {
					i += n
				}
			}
		}
		// zero blocks / single values, then lower values
		for n := len(cur) / 2; n >= 1 && runs < budget; n /= 2 {
			for i := 0; i+n <= len(cur) && runs < budget; i += n {
				allZero := true
				for _, v := range cur[i : i+n] {
					if v != 0 {
						allZero = false
					}
				}
				if allZero {
					continue
				}
				c := append([]uint32(nil), cur...)
				for j := i; j < i+n; j++ {
					c[j] = 0
				}
				if fails(c) {
					cur = trimZeros(c)
					improved = true
					if i+n > len(cur) {
						break
					}
				}
			}
		}
		for i := 0; i < len(cur) && runs < budget; i++ {
			for cur[i] > 0 && runs < budget {
				c := append([]uint32(nil), cur...)
				c[i] = cur[i] / 2
				if fails(c) {
					cur = c
					improved = true
					continue
				}
				if cur[i] > 1 {
					c = append([]uint32(nil), cur...)
					c[i] = cur[i] - 1
					if fails(c) {
						cur = c
						improved = true
						continue
					}
				}
				break
			}
		}
		cur = trimZeros(cur)
	}
	return cur, runs
}

// replayMain replays a replay file and reports whether the recorded violation reproduces.
func replayMain(t *testing.T) {
	b, err := os.ReadFile(*fReplay)
	if err != nil {
		fmt.Fprintln(os.Stderr, err)
		os.Exit(2)
	}
	var f failure
	if err := json.Unmarshal(b, &f); err != nil {
		fmt.Fprintln(os.Stderr, err)
		os.Exit(2)
	}
	scn := scenarios[f.Scenario]
	if scn == nil {
		fmt.Fprintln(os.Stderr, "unknown scenario", f.Scenario)
		os.Exit(2)
	}
	type rep struct {
		Reproduced bool     `json:"reproduced"`
		SameTrace  bool     `json:"same_trace"`
		Attempts   int      `json:"attempts"`
		Hits       int      `json:"hits"`
		Class      string   `json:"class"`
		Detail     string   `json:"detail"`
		Trace      []string `json:"trace"`
		Notes      []string `json:"notes"`
		TraceHash  string   `json:"trace_hash"`
	}
	r := rep{}
	for a := 0; a < *fRetries; a++ {
		r.Attempts++
		res := execute(t, scn, ReplayTape(f.Tape), true)
		th := fmt.Sprintf("%016x", res.TraceHash)
		for _, v := range res.Violations {
			if v.Class == f.Violation.Class {
				r.Hits++
				if !r.Reproduced {
					r.Reproduced = true
					r.Class, r.Detail, r.Trace, r.Notes, r.TraceHash = v.Class, v.Detail, res.Trace, res.Notes, th
					r.SameTrace = th == f.TraceHash
				}
				break
			}
		}
		if !r.Reproduced {
			r.Trace, r.Notes, r.TraceHash = res.Trace, res.Notes, th
		}
	}
	out, _ := json.MarshalIndent(r, "", " ")
	if *fOut != "" {
		os.WriteFile(*fOut, out, 0o644)
	} else {
		fmt.Println(string(out))
	}
}
