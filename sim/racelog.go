package verifsim

import (
	"fmt"
	"os"
	"strings"
)

// Race reports are written by the race runtime to GORACE log_path=<prefix> → file "<prefix>.<pid>".
// After every run the new part of that file is read: a report in it belongs to the run that just finished.

var raceLogOffset int64

func raceLogFile() string {
	for _, kv := range strings.Fields(os.Getenv("GORACE")) {
		if p, ok := strings.CutPrefix(kv, "log_path="); ok {
			return fmt.Sprintf("%s.%d", p, os.Getpid())
		}
	}
	return ""
}

// collectRaces returns the violations for race reports written since the last call.
func collectRaces() []Violation {
	if !raceBuild {
		return nil
	}
	path := raceLogFile()
	if path == "" {
		return nil
	}
	f, err := os.Open(path)
	if err != nil {
		return nil
	}
	defer f.Close()
	st, err := f.Stat()
	if err != nil || st.Size() <= raceLogOffset {
		return nil
	}
	buf := make([]byte, st.Size()-raceLogOffset)
	if _, err := f.ReadAt(buf, raceLogOffset); err != nil {
		return nil
	}
	raceLogOffset = st.Size()
	var out []Violation
	for _, rep := range strings.Split(string(buf), "==================") {
		if !strings.Contains(rep, "WARNING: DATA RACE") {
			continue
		}
		// the sc-golang (non-harness) functions on the two access stacks
		var sites []string
		seen := map[string]bool{}
		section := 0
		for _, l := range strings.Split(rep, "\n") {
			tl := strings.TrimSpace(l)
			if strings.HasPrefix(tl, "Write at") || strings.HasPrefix(tl, "Read at") || strings.HasPrefix(tl, "Previous write at") || strings.HasPrefix(tl, "Previous read at") {
				section++
				continue
			}
			if strings.HasPrefix(tl, "Goroutine ") {
				section = 99 // creation stacks do not identify the racing code
			}
			if section == 0 || section > 2 {
				continue
			}
			if strings.HasPrefix(tl, "github.com/smart-core-os/sc-golang/") && !strings.Contains(tl, "/internal/verifsim") && !strings.Contains(tl, "/internal/simhook") {
				fn := tl
				if i := strings.Index(fn, "("); i > 0 {
					fn = fn[:i]
				}
				fn = strings.TrimPrefix(fn, "github.com/smart-core-os/sc-golang/")
				if !seen[fmt.Sprint(section, fn)] && len(sites) < 4 {
					seen[fmt.Sprint(section, fn)] = true
					sites = append(sites, fn)
				}
			}
		}
		class := "race"
		if len(sites) == 0 {
			class = "harness-race"
		}
		site := ""
		if len(sites) > 0 {
			site = sites[0]
		}
		out = append(out, Violation{Class: class, Detail: strings.TrimSpace(rep), Key: map[string]any{"site": site, "sites": strings.Join(sites, " | ")}})
	}
	return out
}
