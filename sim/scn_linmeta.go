package verifsim

import (
	"fmt"
	"sort"
	"strings"

	"google.golang.org/grpc/codes"
	"google.golang.org/grpc/status"
	"google.golang.org/protobuf/proto"

	"github.com/smart-core-os/sc-api/go/traits"
	"github.com/smart-core-os/sc-golang/pkg/trait/metadatapb"
)

// C02 on a model whose writes are read-modify-write through an interceptor of its own: the metadata model merges trait
// metadata (a map-like list, with a map of further keys per trait) into what is stored. Every call writes keys nobody
// else writes, so the stored metadata says which calls took effect: exactly those that reported success - a merge that
// lost the race for the value (Aborted) has left nothing behind, neither at the end nor in what anybody reads or is
// handed meanwhile.

func init() {
	register(&Scenario{Name: "lin-meta", Prop: "C02", Doc: "metadatapb model holding a trait with keys of its own: 2-4 tasks call UpdateTraitMetadata / MergeMetadata / UpdateMetadata (each writing keys of its own) and GetMetadata at the same time, interleaved at every window of the underlying write; every value read or returned, and the stored metadata at the end, holds the keys of calls that reported success only (and, at the end, of all merges that did)",
		Run:  linMetaRun,
		Real: []string{"pkg/trait/metadatapb Model (merge interceptor)", "pkg/resource Value"}, Stub: []string{"caller tasks"}})
}

func linMetaRun(w *World) {
	t := w.Tape
	w.MarkNontrivial()
	m := metadatapb.NewModel()
	nInit := 1 + t.Choose(2)
	init := &traits.Metadata{Name: "dev"}
	for i := 0; i < nInit; i++ {
		init.Traits = append(init.Traits, &traits.TraitMetadata{Name: fmt.Sprintf("t%d", i), More: map[string]string{"init": "1"}})
	}
	if _, err := m.UpdateMetadata(init); err != nil {
		return
	}
	w.wait()
	type call struct {
		kind  string // trait merge set
		trait string
		key   string
		code  codes.Code
		inv   int64
		ret   int64
	}
	var calls []*call
	// every key that shows up anywhere must belong to a call that was not refused
	keysOf := func(md *traits.Metadata) []string {
		var ks []string
		for _, tm := range md.GetTraits() {
			for k := range tm.GetMore() {
				if k != "init" {
					ks = append(ks, tm.Name+"/"+k)
				}
			}
		}
		for k := range md.GetMore() {
			ks = append(ks, "/"+k)
		}
		sort.Strings(ks)
		return ks
	}
	byKey := map[string]*call{}
	judge := func(task *Task, where string, md *traits.Metadata, at int64) {
		for _, k := range keysOf(md) {
			c := byKey[k]
			if c == nil {
				w.Violate("lost-update", fmt.Sprintf("%s holds the key %q, which nobody wrote: %v", where, k, md), map[string]any{"model": "metadatapb", "what": "unknown-key"})
				return
			}
			// a call that has returned and was refused has no effect, now or later (one that is still in progress may
			// yet succeed: not judged here)
			if c.ret != 0 && c.ret <= at && c.code != codes.OK {
				w.Violate("lost-update", fmt.Sprintf("%s holds the key %q of %s(%s), which had reported %s: a write that is refused changes nothing\n  %v", where, k, c.kind, c.trait, c.code, md), map[string]any{"model": "metadatapb", "what": "refused-write-visible"})
				return
			}
		}
	}
	nt := 2 + t.Choose(3)
	n := 0
	for i := 0; i < nt; i++ {
		var mine []*call
		for j, k := 0, 1+t.Choose(3); j < k; j++ {
			n++
			c := &call{trait: fmt.Sprintf("t%d", t.Choose(nInit+1)), key: fmt.Sprintf("k%d", n)}
			switch t.Choose(6) {
			case 0:
				c.kind = "get"
			case 1:
				c.kind = "merge"
			case 2:
				c.kind = "set-more" // a plain masked update of the device-level map: no trait involved
			default:
				c.kind = "trait"
			}
			switch c.kind {
			case "trait", "merge":
				byKey[c.trait+"/"+c.key] = c
			case "set-more":
				byKey["/"+c.key] = c
			}
			mine = append(mine, c)
			calls = append(calls, c)
		}
		w.Go(fmt.Sprintf("c%d", i), false, func(task *Task) {
			for _, c := range mine {
				task.Yield("op")
				c.inv = w.Step()
				var (
					res *traits.Metadata
					err error
				)
				switch c.kind {
				case "get":
					res, err = m.GetMetadata()
				case "trait":
					res, err = m.UpdateTraitMetadata(&traits.TraitMetadata{Name: c.trait, More: map[string]string{c.key: "v"}})
				case "merge":
					res, err = m.MergeMetadata(&traits.Metadata{Traits: []*traits.TraitMetadata{{Name: c.trait, More: map[string]string{c.key: "v"}}}})
				case "set-more":
					res, err = m.MergeMetadata(&traits.Metadata{More: map[string]string{c.key: "v"}})
				}
				c.code = status.Code(err)
				c.ret = w.Step()
				task.Note("%s(%s,%s) -> %s %v", c.kind, c.trait, c.key, c.code, keysOf(res))
				if err == nil && res != nil {
					judge(task, fmt.Sprintf("the result of %s(%s,%s)", c.kind, c.trait, c.key), proto.Clone(res).(*traits.Metadata), c.inv)
				}
			}
		})
	}
	w.Run()
	if w.truncated {
		return
	}
	if w.Deadlocked || len(w.Unfinished(false)) > 0 {
		w.Violate("write-hangs", "a metadata call did not return: "+strings.Join(w.Unfinished(true), ","), nil)
		return
	}
	w.Go("oracle", false, func(task *Task) {
		final, _ := m.GetMetadata()
		judge(task, "the stored metadata at rest", final, w.Step())
		have := map[string]bool{}
		for _, k := range keysOf(final) {
			have[k] = true
		}
		for k, c := range byKey {
			if c.code == codes.OK && !have[k] {
				w.Violate("lost-update", fmt.Sprintf("%s(%s,%s) reported success but its key %q is not in the stored metadata %v", c.kind, c.trait, c.key, k, final), map[string]any{"model": "metadatapb", "what": "merge-lost"})
				return
			}
		}
	})
	w.Run()
}
