package verifsim

import (
	"context"
	"errors"
	"fmt"
	"strings"

	"google.golang.org/protobuf/proto"

	"github.com/smart-core-os/sc-golang/internal/testproto"
	"github.com/smart-core-os/sc-golang/pkg/group"
)

// C17 — group execution honours each strategy's contract (DESIGN.md §5 C17).
//
// Members are tasks: the order in which the scheduler releases them is the completion order.

func init() {
	register(&Scenario{Name: "group", Prop: "C17", Doc: "caller task + n in 0..4 (up to 8) member tasks with tape-assigned success/failure, optionally cancellation-aware or waiting for ctx.Done; completion order = schedule; every ExecutionStrategy value through Execute and the Execute* functions; strategy contract on (outcomes, order), cancellation, index placement, first error, no panic, no leaked goroutine",
		Run:  groupRun,
		Real: []string{"pkg/group Execute, ExecuteAll/Most/Any/UpTo/One/Fast/Race, executeEach"}, Stub: []string{"member functions (tasks)", "caller task"}})
}

type gmember struct {
	idx     int
	fail    bool
	waiter  bool // only returns once its context is done (with the context's error)
	aware   bool // returns the context's error instead of its outcome if the context is already done when it runs
	invoked bool
	invSeq  int
	retSeq  int  // 0 = not returned
	ctxDone bool // context already done when the member was released
	err     error
	msg     proto.Message
}

func groupRun(w *World) {
	t := w.Tape
	n := t.Choose(5)
	if t.Flag(1, 8) {
		n = 5 + t.Choose(4)
	}
	strategies := []group.ExecutionStrategy{group.ExecutionStrategyAll, group.ExecutionStrategyMost, group.ExecutionStrategyAny, group.ExecutionStrategyOne,
		group.ExecutionStrategyFast, group.ExecutionStrategyRace, group.ExecutionStrategyUnspecified, group.ExecutionStrategy(99)}
	names := []string{"All", "Most", "Any", "One", "Fast", "Race", "Unspecified", "Unknown99"}
	si := t.Choose(len(strategies))
	strat := strategies[si]
	eff := si // effective contract
	if si >= 6 {
		eff = 0
	}
	direct := t.Flag(1, 2) // call ExecuteAll/... directly instead of Execute
	fancy := t.Flag(1, 4)  // cancellation-aware / waiting members
	ms := make([]*gmember, n)
	var members []group.Member
	seq := 0
	outcomes := ""
	for i := 0; i < n; i++ {
		m := &gmember{idx: i, fail: t.Flag(1, 2)}
		if fancy {
			switch t.Choose(4) {
			case 1:
				m.waiter = true
			case 2:
				m.aware = true
			}
		}
		ms[i] = m
		if m.fail {
			outcomes += "F"
		} else {
			outcomes += "S"
		}
		members = append(members, func(ctx context.Context) (proto.Message, error) {
			m.invoked = true
			var task *Task
			if cur := w.lookup(goid()); cur != nil {
				cur.Yield(fmt.Sprintf("member%d", m.idx)) // sequential strategy: the member runs on the caller's goroutine
			} else {
				task = w.Adopt(fmt.Sprintf("m%d", m.idx), false)
				defer task.Done()
			}
			// from here on this member is the only running task: seq needs no lock
			seq++
			m.invSeq = seq
			m.ctxDone = ctx.Err() != nil
			defer func() { seq++; m.retSeq = seq }()
			if m.waiter {
				<-ctx.Done()
				m.err = ctx.Err()
				return nil, m.err
			}
			if m.aware && ctx.Err() != nil {
				m.err = ctx.Err()
				return nil, m.err
			}
			if m.fail {
				m.err = fmt.Errorf("member %d failed", m.idx)
				return nil, m.err
			}
			m.msg = &testproto.TestAllTypes{DefaultInt32: int32(100 + m.idx)}
			return m.msg, nil
		})
	}
	parent, cancelParent := context.WithCancel(context.Background())
	var (
		results  []proto.Message
		single   proto.Message
		singleI  int
		err      error
		returned bool
		retSeq   int
	)
	useSingle := false
	w.Go("caller", false, func(task *Task) {
		if direct {
			switch eff {
			case 0:
				results, err = group.ExecuteAll(parent, members)
			case 1:
				results, err = group.ExecuteMost(parent, members)
			case 2:
				results, err = group.ExecuteAny(parent, members)
			case 3:
				single, singleI, err = group.ExecuteOne(parent, members)
				useSingle = true
			case 4:
				single, singleI, err = group.ExecuteFast(parent, members)
				useSingle = true
			case 5:
				single, singleI, err = group.ExecuteRace(parent, members)
				useSingle = true
			}
		} else {
			results, err = group.Execute(parent, strat, members)
		}
		seq++
		returned, retSeq = true, seq
	})
	w.Run()
	rescued := false
	if !returned && !w.truncated && !w.Deadlocked {
		// members that wait for cancellation keep a successful All/Most/Any/One call open: unwind through the parent
		rescued = true
		cancelParent()
		w.Run()
	}
	cancelParent()
	w.Run()
	if w.truncated {
		return
	}
	// completion order
	order := make([]*gmember, 0, n)
	for k := 1; k <= seq; k++ {
		for _, m := range ms {
			if m.retSeq == k {
				order = append(order, m)
			}
		}
	}
	ordStr := ""
	for _, m := range order {
		ordStr += fmt.Sprint(m.idx)
	}
	if !fancy && n <= 4 {
		w.SetCase(fmt.Sprintf("%s|%d|%s|%s", names[eff], n, outcomes, ordStr))
	}
	desc := fmt.Sprintf("strategy=%s(direct=%v) n=%d outcomes=%s completion=%s fancy=%v rescued=%v err=%v", names[si], direct, n, outcomes, ordStr, fancy, rescued, err)
	w.Note("%s", desc)
	key := map[string]any{"strategy": names[eff]}
	bad := func(class, msg string) {
		var sb strings.Builder
		for _, m := range ms {
			fmt.Fprintf(&sb, "\n  m%d fail=%v waiter=%v aware=%v invoked@%d returned@%d ctxDoneWhenRun=%v err=%v", m.idx, m.fail, m.waiter, m.aware, m.invSeq, m.retSeq, m.ctxDone, m.err)
		}
		w.Violate(class, msg+"\n  "+desc+fmt.Sprintf(" callerReturned@%d", retSeq)+sb.String(), key)
	}
	if n >= 2 {
		w.MarkNontrivial()
	}
	w.Mix(desc)
	if !returned {
		for _, tk := range w.taskList() {
			if tk.Name == "caller" && tk.panicked {
				return // reported as a panic
			}
		}
		bad("caller-stuck", "Execute did not return although every member returned or the parent context was cancelled")
		return
	}
	// actual outcome of each member (a waiter / aware member may have failed with the context error)
	failed := func(m *gmember) bool { return m.err != nil }
	// With lazily scheduled library goroutines the goroutine that runs a member can be held up between the member's
	// return and the hand-over of its response, so the order in which the executor observes responses is not the order
	// in which the members returned; the checks that rely on that order are replaced by their order-free versions.
	lazy := w.LazyGoroutines()
	resultAt := func(i int) proto.Message {
		if useSingle {
			if i == singleI {
				return single
			}
			return nil
		}
		if i < len(results) {
			return results[i]
		}
		return nil
	}
	switch eff {
	case 0, 1, 2:
		allowed := 0
		if eff == 1 {
			allowed = n / 2
		} else if eff == 2 {
			allowed = n - 1
		}
		// all members must have run and returned before the call returns
		for _, m := range ms {
			if !m.invoked || m.retSeq == 0 || m.retSeq > retSeq {
				bad("returned-early", fmt.Sprintf("%s returned before member %d had returned", names[eff], m.idx))
				return
			}
		}
		nfail := 0
		var firstErr error
		decidedAt := -1 // completion position at which the failure was decided
		for pos, m := range order {
			if failed(m) {
				nfail++
				if firstErr == nil {
					firstErr = m.err
				}
				if nfail > allowed && decidedAt < 0 {
					decidedAt = pos
				}
			}
		}
		wantFail := nfail > allowed
		if n == 0 {
			wantFail = false
		}
		if wantFail != (err != nil) {
			bad("wrong-verdict", fmt.Sprintf("%d of %d members failed, allowed %d: expected failure=%v, got err=%v", nfail, n, allowed, wantFail, err))
			return
		}
		if wantFail && !lazy && !errors.Is(err, firstErr) {
			bad("wrong-error", fmt.Sprintf("the returned error is %v, the first error observed was %v", err, firstErr))
		}
		if wantFail && lazy {
			// which failure the executor observes first is not the order in which the members returned: a member's
			// goroutine may be held up between the member's return and handing over its response
			any := false
			for _, m := range ms {
				if failed(m) && errors.Is(err, m.err) {
					any = true
				}
			}
			if !any {
				bad("wrong-error", fmt.Sprintf("the returned error %v is not the error of any member", err))
			}
		}
		if !useSingle && len(results) != n {
			bad("wrong-results", fmt.Sprintf("%d results for %d members", len(results), n))
			return
		}
		for _, m := range ms {
			if !failed(m) && !proto.Equal(resultAt(m.idx), m.msg) {
				bad("wrong-results", fmt.Sprintf("result at index %d is %v, member %d returned %v", m.idx, resultAt(m.idx), m.idx, m.msg))
			}
			if failed(m) && resultAt(m.idx) != nil {
				bad("wrong-results", fmt.Sprintf("result at index %d is %v although member %d failed", m.idx, resultAt(m.idx), m.idx))
			}
		}
		// cancellation
		for _, m := range ms {
			if !lazy || rescued {
				break
			}
			// lazily scheduled member goroutines: a cancelled context proves that the failure was decided, for which more
			// than the allowed number of members must have failed before this member looked at its context
			before := 0
			for _, o := range ms {
				if failed(o) && o.retSeq != 0 && o.retSeq < m.invSeq {
					before++
				}
			}
			if m.ctxDone && before <= allowed {
				bad("cancelled-early", fmt.Sprintf("member %d found its context cancelled when only %d members had failed (allowed %d)", m.idx, before, allowed))
			}
		}
		for pos, m := range order {
			if rescued || lazy {
				break
			}
			if decidedAt >= 0 && pos > decidedAt && !m.ctxDone && m.invSeq > order[decidedAt].retSeq {
				// started running only after the failure was decided: must see a cancelled context
				bad("not-cancelled", fmt.Sprintf("member %d ran after the call was decided to fail but its context was not cancelled", m.idx))
			}
			if (decidedAt < 0 || pos <= decidedAt) && m.ctxDone {
				bad("cancelled-early", fmt.Sprintf("member %d found its context cancelled before the call was decided to fail", m.idx))
			}
		}
	case 3:
		// One: index order, stop at the first success
		firstOK := -1
		for _, m := range ms {
			if !failed(m) && m.invoked && firstOK < 0 {
				firstOK = m.idx
			}
		}
		prev := 0
		for _, m := range ms {
			if firstOK >= 0 && m.idx > firstOK {
				if m.invoked {
					bad("one-continued", fmt.Sprintf("member %d was tried although member %d had succeeded", m.idx, firstOK))
				}
				continue
			}
			if !m.invoked {
				bad("one-skipped", fmt.Sprintf("member %d was never tried", m.idx))
				continue
			}
			if m.invSeq < prev {
				bad("one-order", "members were not tried in index order")
			}
			prev = m.retSeq
		}
		if firstOK >= 0 {
			if err != nil || !proto.Equal(resultAt(firstOK), ms[firstOK].msg) {
				bad("wrong-verdict", fmt.Sprintf("member %d succeeded: expected its result at its index and no error, got err=%v result=%v", firstOK, err, resultAt(firstOK)))
			}
		} else if n > 0 {
			if err == nil || !errors.Is(err, ms[0].err) {
				bad("wrong-error", fmt.Sprintf("all members failed: expected the first error %v, got %v", ms[0].err, err))
			}
		}
	case 4, 5:
		if lazy {
			// The response the executor sees first need not be that of the member that returned first (see above): any
			// member that had returned by the time the call returned may have decided it.
			if n == 0 {
				if err == nil {
					bad("wrong-verdict", "no members, but no error either")
				}
				break
			}
			okBy := func(m *gmember) bool {
				if m.retSeq == 0 || m.retSeq > retSeq {
					return false
				}
				if failed(m) {
					if !rescued && (errors.Is(m.err, context.Canceled) || errors.Is(m.err, context.DeadlineExceeded)) {
						// this member only reported that its context was cancelled; nobody but the group cancels it, and
						// the group may do so only once the call is decided - by somebody else's response
						return false
					}
					return eff == 5 && err != nil && errors.Is(err, m.err)
				}
				if err != nil || !proto.Equal(resultAt(m.idx), m.msg) {
					return false
				}
				for _, o := range ms {
					if o != m && resultAt(o.idx) != nil {
						return false
					}
				}
				return true
			}
			explained := false
			for _, m := range ms {
				if okBy(m) {
					explained = true
				}
			}
			if eff == 4 && err != nil {
				// Fast errs only if every member failed (and so had returned), with one of their errors
				explained = true
				for _, m := range ms {
					if m.retSeq == 0 || m.retSeq > retSeq {
						bad("returned-early", fmt.Sprintf("Fast returned an error before member %d had returned", m.idx))
						return
					}
					if !failed(m) {
						explained = false
					}
				}
				if explained {
					explained = false
					for _, m := range ms {
						if errors.Is(err, m.err) {
							explained = true
						}
					}
				}
			}
			if !explained {
				bad("wrong-verdict", fmt.Sprintf("no member's response explains the call's outcome err=%v", err))
			}
			for _, m := range ms {
				if m.invoked && m.invSeq > retSeq && !m.ctxDone {
					bad("not-cancelled", fmt.Sprintf("member %d ran after the call had returned but its context was not cancelled", m.idx))
				}
			}
			break
		}
		// Fast: first success in completion order; errs only if all fail. Race: first response.
		var decider *gmember
		for _, m := range order {
			if m.retSeq > retSeq {
				break
			}
			if eff == 5 || !failed(m) {
				decider = m
				break
			}
		}
		if decider == nil && eff == 4 {
			// every member that returned before the caller failed: legitimate only if all members returned and failed
			for _, m := range ms {
				if m.retSeq == 0 || m.retSeq > retSeq {
					bad("returned-early", fmt.Sprintf("Fast returned an error before member %d had returned", m.idx))
					return
				}
			}
			if n > 0 && (err == nil || !errors.Is(err, order[0].err)) {
				bad("wrong-error", fmt.Sprintf("all members failed: expected the first error observed %v, got %v", order[0].err, err))
			}
			if n == 0 && err == nil {
				bad("wrong-verdict", "no members, but no error either")
			}
		} else if decider != nil {
			// nobody that completed earlier may qualify; the call must report exactly the decider's response
			if eff == 4 {
				if err != nil || !proto.Equal(resultAt(decider.idx), decider.msg) {
					bad("wrong-verdict", fmt.Sprintf("member %d was the first to succeed: expected its result at index %d and no error, got err=%v result=%v", decider.idx, decider.idx, err, resultAt(decider.idx)))
				}
			} else {
				if failed(decider) != (err != nil) || (err != nil && !errors.Is(err, decider.err)) || (err == nil && !proto.Equal(resultAt(decider.idx), decider.msg)) {
					bad("wrong-verdict", fmt.Sprintf("member %d responded first: expected exactly its response, got err=%v result=%v", decider.idx, err, resultAt(decider.idx)))
				}
			}
			for _, m := range ms {
				if m != decider && resultAt(m.idx) != nil {
					bad("wrong-results", fmt.Sprintf("result at index %d set although member %d decided the call", m.idx, decider.idx))
				}
			}
			// members that ran after the call returned must find their context cancelled
			for _, m := range ms {
				if m.invoked && m.invSeq > retSeq && !m.ctxDone {
					bad("not-cancelled", fmt.Sprintf("member %d ran after the call had returned but its context was not cancelled", m.idx))
				}
			}
		} else if n == 0 && err == nil {
			bad("wrong-verdict", "no members, but no error either")
		}
		// members released (not merely started) after the return: ctxDone is sampled when the member is released
		for _, m := range order {
			if m.retSeq > retSeq && !m.ctxDone && !m.waiter && !rescued {
				bad("not-cancelled", fmt.Sprintf("member %d was still running when the call returned but its context was not cancelled", m.idx))
			}
		}
	}
}
