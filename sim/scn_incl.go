package verifsim

import (
	"context"
	"fmt"
	"strings"

	"google.golang.org/grpc/codes"

	"github.com/smart-core-os/sc-api/go/types"
)

// C08 — include-filtered List/Pull behave as the filtered collection (DESIGN.md §5 C08).

func init() {
	register(&Scenario{Name: "incl", Prop: "C08", Doc: "one writer over ids {a,b} x values {1,2,3}, 1-2 subscribers with WithInclude(p), p a tape-chosen truth table over (id, value or absent) (all 256 tables reachable), backpressure on/off, updates-only on/off; phases of 1-3 writes, after each phase at quiescence fold(stream) == List(WithInclude(p)) == model filter; with backpressure also the per-event ADD/UPDATE/REMOVE/nothing decision table",
		Run:  inclRun,
		Real: []string{"pkg/resource Collection (Pull, List, include, mergeCollectionExcess)", "internal/minibus"}, Stub: []string{"writer/consumer tasks", "reference model"}})
}

type inclSub struct {
	*subscriber
	tbl    *inclTable
	view   map[string]mm // expected view (model), maintained by the oracle
	expect []inclExp
}

type inclExp struct {
	sev
	Loose bool // statement is silent about the exact event (predicate true for absent values): only folding is checked
	None  bool // nothing must be delivered
}

func inclRun(w *World) {
	t := w.Tape
	ids := []string{"a", "b"}
	vals := []int32{1, 2, 3}
	cfg := resCfg{Coll: true, Initial: map[string]mm{}}
	for _, id := range ids {
		if t.Flag(1, 2) {
			cfg.Initial[id] = mm{V: vals[t.Choose(3)]}
		}
	}
	// with an equivalence that ignores the field the predicate reads, an update can move an item across the predicate's
	// boundary while old and new value are equivalent: the ADD/REMOVE that results is not an equivalent update (one side
	// is absent) and must still be delivered. Updates between two matching versions may then be suppressed, so the
	// folded view is compared for membership and the fields the equivalence looks at, and no exact event table applies.
	cfg.EquivNoV = t.Flag(1, 4)
	noV := func(v map[string]mm) map[string]mm {
		if !cfg.EquivNoV {
			return v
		}
		out := map[string]mm{}
		for id, x := range v {
			x.V = 0
			out[id] = x
		}
		return out
	}
	r := newRealRes(cfg, &simClock{}, &simRNG{})
	m := newModel(cfg)
	ns := 1 + t.Choose(2)
	var subs []*inclSub
	for i := 0; i < ns; i++ {
		tbl := &inclTable{ids: ids, vals: vals, bits: uint64(t.Choose(256))}
		if t.Flag(1, 3) {
			tbl.bits &^= 0x88 // never true for absent values: the common kind of predicate
		}
		ctx, cancel := context.WithCancel(context.Background())
		sc := subCfg{Backpressure: t.Flag(1, 2), UpdatesOnly: t.Flag(1, 4), Include: tbl}
		switch t.Choose(6) {
		case 1:
			sc.RMaskSet, sc.RMask = true, []string{fV}
		case 2:
			// a read mask that leaves out the field the predicate reads: inclusion is decided on the stored item,
			// the mask only shapes what is delivered
			sc.RMaskSet, sc.RMask = true, []string{fS, fN}
		}
		subs = append(subs, &inclSub{subscriber: &subscriber{name: fmt.Sprintf("s%d", i), cfg: sc, ctx: ctx, cancel: cancel}, tbl: tbl})
	}
	filtered := func(tbl *inclTable) map[string]mm {
		out := map[string]mm{}
		for id, v := range m.items {
			if tbl.eval(id, false, v.V) {
				out[id] = v
			}
		}
		return out
	}
	projFor := func(s *inclSub) func(mm) mm {
		return func(x mm) mm { return x.project(s.cfg.RMask, !s.cfg.RMaskSet) }
	}
	projView := func(s *inclSub, v map[string]mm) map[string]mm {
		out := map[string]mm{}
		for id, x := range v {
			out[id] = projFor(s)(x)
		}
		return out
	}
	nphases := 1 + t.Choose(4)
	openAt := make([]int, ns)
	for i := range openAt {
		openAt[i] = t.Choose(nphases)
	}
	ok := true
	exact := true
	for ph := 0; ph < nphases && ok; ph++ {
		for i, s := range subs {
			if openAt[i] != ph {
				continue
			}
			s := s
			s.view = projView(s, filtered(s.tbl))
			if !s.cfg.UpdatesOnly {
				sids := []string{}
				for _, id := range m.sortedIDs() {
					if _, in := s.view[id]; in {
						sids = append(sids, id)
					}
				}
				for k, id := range sids {
					s.expect = append(s.expect, inclExp{sev: sev{ID: id, Type: types.ChangeType_ADD, HasNew: true, New: projFor(s)(m.items[id]), Seed: true, LastSeed: k == len(sids)-1}})
				}
			}
			// opened between phases: never concurrently with a write (the statement's histories are single-writer)
			s.open(r)
			w.Go(s.name, true, func(t *Task) {
				for {
					t.Yield("recv")
					if !s.recv(w) {
						return
					}
				}
			})
		}
		if t.Flag(1, 5) {
			// a phase with two writers at once (upserts, deletes and adds of the same few ids): which order they take effect in
			// is then the store's business - afterwards the model is re-read from the store, the exact event table is no
			// longer applied, and the folded filtered stream must still be List with the same predicate
			exact = false
			for k := 0; k < 2; k++ {
				var cops []wop
				for j, n := 0, 1+t.Choose(2); j < n; j++ {
					switch t.Choose(4) {
					case 0: // (items also go away and come back while the other writer is at work)
						cops = append(cops, wop{Kind: opDelete, ID: ids[t.Choose(2)], AllowMiss: true})
					case 1:
						cops = append(cops, wop{Kind: opAdd, ID: ids[t.Choose(2)], Val: mm{V: vals[t.Choose(3)]}})
					default:
						cops = append(cops, wop{Kind: opUpdate, ID: ids[t.Choose(2)], Val: mm{V: vals[t.Choose(3)]}, CreateIfAbs: !t.Flag(1, 4)})
					}
				}
				cw := &writer{name: fmt.Sprintf("w%d%c", ph, 'a'+k), ops: cops}
				w.Go(cw.name, false, func(t *Task) { cw.run(t, r) })
			}
			w.Run()
			if w.Deadlocked || len(w.Unfinished(false)) > 0 {
				if !w.truncated {
					w.Violate("writer-stuck", "writers did not finish: "+strings.Join(w.Unfinished(true), ","), nil)
				}
				ok = false
				break
			}
			settle := false
			w.Go("settle", false, func(t *Task) { t.Settle("phase"); settle = true })
			w.Run()
			_ = settle
			for _, id := range ids {
				if g := r.apply(wop{Kind: opGet, ID: id}); g.Found {
					m.items[id] = g.Msg
				} else {
					delete(m.items, id)
				}
			}
		}
		nw := 1 + t.Choose(3)
		var ops []wop
		for k := 0; k < nw; k++ {
			id := ids[t.Choose(2)]
			var o wop
			switch t.Choose(5) {
			case 0:
				o = wop{Kind: opDelete, ID: id, AllowMiss: t.Flag(1, 2)}
			case 1:
				o = wop{Kind: opAdd, ID: id, Val: mm{V: vals[t.Choose(3)]}}
			default:
				o = wop{Kind: opUpdate, ID: id, Val: mm{V: vals[t.Choose(3)]}, CreateIfAbs: t.Flag(1, 2)}
			}
			ops = append(ops, o)
		}
		wr := &writer{name: fmt.Sprintf("w%d", ph), ops: ops}
		w.Go(wr.name, false, func(t *Task) { wr.run(t, r) })
		w.Run()
		if w.Deadlocked || len(w.Unfinished(false)) > 0 {
			if !w.truncated {
				w.Violate("writer-stuck", "writer did not finish: "+strings.Join(w.Unfinished(true), ","), nil)
			}
			ok = false
			break
		}
		// replay the phase on the model and derive expectations
		for _, h := range wr.hist {
			before, had := m.items[h.Op.ID]
			want := m.apply(h.Op, "")
			if !sameRes(want, h.Res) {
				w.Violate("model-mismatch", fmt.Sprintf("%s\n  model: %s", h, want), nil)
				ok = false
				break
			}
			if h.Res.Code != codes.OK || (h.Op.Kind == opDelete && !h.Res.HasMsg) {
				continue
			}
			after, has := m.items[h.Op.ID]
			for _, s := range subs {
				if !s.opened {
					continue
				}
				id := h.Op.ID
				oi := s.tbl.eval(id, !had, before.V)
				ni := s.tbl.eval(id, !has, after.V)
				e := inclExp{}
				e.ID = id
				before, after := projFor(s)(before), projFor(s)(after)
				e.Loose = (!had && s.tbl.eval(id, true, 0)) || (!has && s.tbl.eval(id, true, 0))
				switch {
				case oi && ni:
					switch {
					case !had:
						e.Type, e.HasNew, e.New = types.ChangeType_ADD, true, after
					case !has:
						e.Type, e.HasOld, e.Old = types.ChangeType_REMOVE, true, before
					default:
						e.Type, e.HasOld, e.Old, e.HasNew, e.New = types.ChangeType_UPDATE, true, before, true, after
					}
				case !oi && ni:
					e.Type, e.HasNew, e.New = types.ChangeType_ADD, true, after
				case oi && !ni:
					e.Type, e.HasOld, e.Old = types.ChangeType_REMOVE, true, before
				default:
					e.None = true
				}
				s.expect = append(s.expect, e)
			}
		}
		if !ok {
			break
		}
		// oracle at quiescence
		for _, s := range subs {
			if !s.opened {
				continue
			}
			full := filtered(s.tbl)
			want := projView(s, full)
			// List with the same predicate
			lr := r.apply(wop{Kind: opList, Include: s.tbl})
			var wl []mm
			for _, id := range m.sortedIDs() {
				if v, in := full[id]; in {
					wl = append(wl, v)
				}
			}
			if fmt.Sprint(lr.List) != fmt.Sprint(append([]mm{}, wl...)) {
				w.Violate("list-include", fmt.Sprintf("List(WithInclude(%s)) returns %v, the filtered contents are %v (all: %s)", s.tbl, lr.List, wl, m.contentsString()), nil)
				ok = false
			}
			view := foldOnto(s.view, s.cfg.UpdatesOnly, s.events)
			if viewString(noV(view)) != viewString(noV(want)) {
				mode := "lossy"
				if s.cfg.Backpressure {
					mode = "backpressure"
				}
				w.Violate("fold-mismatch", fmt.Sprintf("%s [%s] after phase %d: folded stream gives {%s}, List with the same predicate gives {%s} (all: %s)\n  predicate: %s\n  events: %s",
					s.name, s.cfg, ph, viewString(view), viewString(want), m.contentsString(), s.tbl.describe(), eventsString(s.events)),
					map[string]any{"mode": mode})
				ok = false
			}
			if s.cfg.Backpressure && ok && !cfg.EquivNoV && exact {
				if d := inclCompare(s); d != "" {
					w.Violate("decision-table", fmt.Sprintf("%s [%s]: %s\n  predicate: %s\n  events: %s", s.name, s.cfg, d, s.tbl.describe(), eventsString(s.events)), nil)
					ok = false
				}
			}
		}
	}
	for _, s := range subs {
		if s.opened {
			w.Note("%s[%s]: %s", s.name, s.cfg, eventsString(s.events))
		}
		s.cancel()
	}
	w.Run()
}

// foldOnto folds events on top of an initial view (used as is for updates-only subscribers, empty otherwise).
func foldOnto(initial map[string]mm, updatesOnly bool, events []sev) map[string]mm {
	view := map[string]mm{}
	if updatesOnly {
		for id, v := range initial {
			view[id] = v
		}
	}
	for _, e := range events {
		if e.Type == types.ChangeType_REMOVE {
			delete(view, e.ID)
		} else if e.HasNew {
			view[e.ID] = e.New
		}
	}
	return view
}

// inclCompare checks the exact per-event expectations of a backpressured subscriber; "" when they hold.
func inclCompare(s *inclSub) string {
	got := s.events
	gi := 0
	for _, e := range s.expect {
		switch {
		case e.Loose:
			// zero or one event about this id is acceptable here
			if gi < len(got) && got[gi].ID == e.ID && !got[gi].Seed {
				gi++
			}
		case e.None:
			// nothing expected: checked implicitly by the next expectation / the end
		default:
			if gi >= len(got) {
				return fmt.Sprintf("expected %s but nothing more was received", e.sev)
			}
			if !sameEvent(got[gi], e.sev) {
				return fmt.Sprintf("expected %s but received %s", e.sev, got[gi])
			}
			gi++
		}
	}
	if gi < len(got) {
		return fmt.Sprintf("unexpected extra event %s", got[gi])
	}
	return ""
}

func (t *inclTable) describe() string {
	var p []string
	for _, id := range t.ids {
		for _, v := range t.vals {
			if t.eval(id, false, v) {
				p = append(p, fmt.Sprintf("%s=v%d", id, v))
			}
		}
		if t.eval(id, true, 0) {
			p = append(p, id+"=absent")
		}
	}
	return "true for {" + strings.Join(p, " ") + "}"
}
