package verifsim

import (
	"fmt"
	"strings"

	"google.golang.org/grpc/codes"
	"google.golang.org/grpc/status"

	"github.com/smart-core-os/sc-api/go/traits"
	"github.com/smart-core-os/sc-golang/pkg/trait/wastepb"
)

// C02 on a model that keeps a log beside its resource: the waste model appends every added record to a list and
// publishes it as the "last record". An add that loses the race for the resource reports failure - and has no effect:
// the list holds exactly the records whose add reported success.

func init() {
	register(&Scenario{Name: "lin-waste", Prop: "C02", Doc: "wastepb model: 2-4 tasks add 1-2 records each at the same time (interleaved at every window of the underlying write); afterwards the record list has grown by exactly the adds that reported success, each of those is listed once and none of the failed ones is",
		Run:  linWasteRun,
		Real: []string{"pkg/trait/wastepb Model (record list beside a Value)", "pkg/resource Value"}, Stub: []string{"caller tasks"}})
}

func linWasteRun(w *World) {
	t := w.Tape
	w.MarkNontrivial()
	m := wastepb.NewModel()
	w.wait()
	base := m.GetWasteRecordCount()
	type add struct {
		id   string
		code codes.Code
	}
	var adds []*add
	nt := 2 + t.Choose(3)
	for i := 0; i < nt; i++ {
		var mine []*add
		for j, k := 0, 1+t.Choose(2); j < k; j++ {
			a := &add{id: fmt.Sprintf("x%d-%d", i, j)}
			mine = append(mine, a)
			adds = append(adds, a)
		}
		w.Go(fmt.Sprintf("c%d", i), false, func(task *Task) {
			for _, a := range mine {
				task.Yield("op")
				_, err := m.AddWasteRecord(&traits.WasteRecord{Id: a.id, Weight: 1})
				a.code = status.Code(err)
				task.Note("add %s -> %s", a.id, a.code)
			}
		})
	}
	w.Run()
	if w.truncated {
		return
	}
	if w.Deadlocked || len(w.Unfinished(false)) > 0 {
		w.Violate("write-hangs", "an AddWasteRecord call did not return: "+strings.Join(w.Unfinished(true), ","), nil)
		return
	}
	n := m.GetWasteRecordCount()
	listed := map[string]int{}
	for _, r := range m.ListWasteRecords(n, n-base+len(adds)) {
		listed[r.Id]++
	}
	ok := 0
	for _, a := range adds {
		switch {
		case a.code == codes.OK:
			ok++
			if listed[a.id] != 1 {
				w.Violate("lost-update", fmt.Sprintf("the add of %s reported success and the record is listed %d times", a.id, listed[a.id]), nil)
				return
			}
		case listed[a.id] != 0:
			w.Violate("lost-update", fmt.Sprintf("the add of %s failed with %s, yet the record is in the list: a call that lost the race had an effect", a.id, a.code), nil)
			return
		}
	}
	if n != base+ok {
		w.Violate("lost-update", fmt.Sprintf("%d adds reported success, the list grew from %d to %d records", ok, base, n), nil)
	}
}
