package verifsim

import (
	"context"
	"fmt"
	"google.golang.org/protobuf/reflect/protoreflect"
	"math/rand"
	"reflect"
	"time"

	"google.golang.org/grpc"
	"google.golang.org/grpc/codes"
	"google.golang.org/grpc/metadata"
	"google.golang.org/grpc/status"
	"google.golang.org/protobuf/proto"

	"google.golang.org/protobuf/types/known/timestamppb"

	"github.com/smart-core-os/sc-api/go/traits"
	"github.com/smart-core-os/sc-golang/internal/minibus"
	"github.com/smart-core-os/sc-golang/internal/testproto"
	"github.com/smart-core-os/sc-golang/pkg/group"
	"github.com/smart-core-os/sc-golang/pkg/resource"
	"github.com/smart-core-os/sc-golang/pkg/router"
	"github.com/smart-core-os/sc-golang/pkg/trait"
	"github.com/smart-core-os/sc-golang/pkg/trait/electricpb"
	"github.com/smart-core-os/sc-golang/pkg/trait/hailpb"
	"github.com/smart-core-os/sc-golang/pkg/trait/metadatapb"
	"github.com/smart-core-os/sc-golang/pkg/trait/parentpb"
	"github.com/smart-core-os/sc-golang/pkg/wrap"
)

// C11 — concurrent use of the public API is free of data races (DESIGN.md §3.8, §5 C11).
//
// These scenarios run in the -race build. The scheduler's hand-offs are hidden from the race detector, so two accesses
// by different tasks that the library itself does not order are reported although they happened in a serial,
// replayable schedule. Tasks only touch task-local harness state (operations are generated before the tasks start,
// nothing is compared across tasks): the oracle is the race detector alone.

func init() {
	for _, s := range []struct {
		name, doc string
		run       func(w *World)
		real      []string
	}{
		{"race-value", "2-4 tasks on one Value: Set with interceptors/checks that read their arguments, Get (reading the result), Pull consumers reading every event, cancels", raceValue, []string{"pkg/resource Value", "internal/minibus"}},
		{"race-coll", "2-4 tasks on one Collection: Add (generated ids, id/created callbacks), Update, Delete, Get, List, Pull/PullID consumers reading every event, cancels", raceColl, []string{"pkg/resource Collection", "internal/minibus"}},
		{"race-bus", "2-4 tasks on one minibus.Bus: Send, Listen + receive, cancel", raceBus, []string{"internal/minibus"}},
		{"race-router", "2-4 tasks on one router: Add/Remove/Has/Get with factory, fallback and change callback", raceRouter, []string{"pkg/router"}},
		{"race-group", "group.Execute with every strategy, members as tasks reading their context and returning messages the caller reads", raceGroup, []string{"pkg/group"}},
		{"race-wrap", "client task and handler task over wrap.ServerToClient (unary with header/trailer options, bidi echo with SetHeader/SetTrailer, status return, client cancel); both sides change their messages after sending", raceWrap, []string{"pkg/wrap"}},
		{"race-models", "2-4 tasks on the electric, parent, metadata and hail (with its keep-alive collector) models: every public method incl. Pull consumers reading events", raceModels, []string{"pkg/trait/electricpb Model", "pkg/trait/parentpb Model", "pkg/trait/metadatapb Model", "pkg/trait/hailpb Model", "pkg/resource"}},
		{"race-servers", "2-3 tasks call Update and Get directly on a discovered model server / memory device (requests built by reflection): whatever a server keeps besides its resources is shared between the callers", raceServers, []string{"every discovered *pb.ModelServer / MemoryDevice with a Get/Update/Pull triple", "pkg/resource"}},
	} {
		s := s
		register(&Scenario{Name: s.name, Prop: "C11", Doc: s.doc, Run: s.run, Real: s.real, Stub: []string{"caller / consumer / canceller tasks (task-local state only)"}})
	}
}

// touch reads every field of a message the way a consumer would.
func touch(m proto.Message) int {
	if m == nil {
		return 0
	}
	return proto.Size(m)
}

// touchEvent reads every exported field of a received change event (not only the messages it carries), the way a
// consumer that switches on the change type or the seed flags would.
func touchEvent(e any) int {
	v := reflect.ValueOf(e)
	if v.Kind() == reflect.Ptr {
		if v.IsNil() {
			return 0
		}
		v = v.Elem()
	}
	n := 0
	if v.Kind() != reflect.Struct {
		return 0
	}
	for i := 0; i < v.NumField(); i++ {
		if !v.Type().Field(i).IsExported() {
			continue
		}
		f := v.Field(i)
		if m, ok := f.Interface().(proto.Message); ok {
			n += touch(m)
			continue
		}
		switch f.Kind() {
		case reflect.Bool:
			if f.Bool() {
				n++
			}
		case reflect.Int, reflect.Int32, reflect.Int64:
			n += int(f.Int())
		case reflect.String:
			n += len(f.String())
		case reflect.Struct:
			n += int(f.NumField()) + len(fmt.Sprint(f.Interface()))
		}
	}
	return n
}

type raceOp func(t *Task)

// runOps starts one task per op list.
func runOps(w *World, lists [][]raceOp) {
	for i, ops := range lists {
		ops := ops
		w.Go(fmt.Sprintf("t%d", i), false, func(t *Task) {
			for _, o := range ops {
				t.Yield("op")
				o(t)
			}
		})
	}
}

func tam(v int32) *testproto.TestAllTypes {
	return &testproto.TestAllTypes{DefaultInt32: v, DefaultString: fmt.Sprint("s", v), RepeatedInt32: []int32{v, v + 1},
		DefaultNestedMessage: &testproto.TestAllTypes_NestedMessage{A: v}}
}

func raceWriteOpts(t *Tape) []resource.WriteOption {
	var opts []resource.WriteOption
	if t.Flag(1, 3) {
		opts = append(opts, resource.InterceptBefore(func(old, new proto.Message) {
			n := touch(old) + touch(new)
			new.(*testproto.TestAllTypes).DefaultInt64 = int64(n)
		}))
	}
	if t.Flag(1, 3) {
		opts = append(opts, resource.InterceptAfter(func(old, new proto.Message) {
			new.(*testproto.TestAllTypes).DefaultUint32 = uint32(touch(old))
		}))
	}
	if t.Flag(1, 4) {
		opts = append(opts, resource.WithExpectedCheck(func(old proto.Message) error {
			touch(old)
			return nil
		}))
	}
	if t.Flag(1, 4) {
		if t.Flag(1, 2) {
			// one option value (and with it one field mask) used for many writes, the way a caller keeps a package-level
			// "only these fields" option around: the library may read it, never write it
			opts = append(opts, sharedUpdatePaths)
		} else {
			opts = append(opts, resource.WithUpdatePaths("default_int32", "default_string"))
		}
	}
	return opts
}

// (deliberately not in normal form - unsorted, with a path that another one covers - like masks callers write by hand)
var sharedUpdatePaths = resource.WithUpdatePaths("default_string", "default_int32", "default_nested_message.a", "default_nested_message")

func raceValue(w *World) {
	t := w.Tape
	vopts := []resource.Option{resource.WithInitialValue(tam(0))}
	if t.Flag(1, 3) {
		// a resource that restricts what may be written (as several memory devices do): update masks are validated
		// against the writable fields
		vopts = append(vopts, resource.WithWritablePaths(&testproto.TestAllTypes{}, "default_int32", "default_int64", "default_uint32", "default_string", "repeated_int32", "default_nested_message"))
	}
	v := resource.NewValue(vopts...)
	nt := 2 + t.Choose(3)
	lists := make([][]raceOp, nt)
	n := int32(0)
	var stalled context.CancelFunc
	if t.Flag(1, 4) {
		// a backpressured subscriber that never comes for its events: writes run into their five second bound (fake time
		// passes when nobody can run) and take the path that hands the event to the later listeners without waiting
		var sctx context.Context
		sctx, stalled = context.WithCancel(context.Background())
		_ = v.Pull(sctx, resource.WithBackpressure(true))
		w.IdleAdvance, w.IdleAdvanceN = 6*time.Second, 6
	}
	for i := range lists {
		k := 1 + t.Choose(4)
		for j := 0; j < k; j++ {
			n++
			x := n
			switch t.Choose(5) {
			case 0, 1:
				opts := raceWriteOpts(t)
				lists[i] = append(lists[i], func(*Task) {
					m := tam(x)
					r, _ := v.Set(m, opts...)
					touch(r)
					m.DefaultInt32++ // the caller may reuse its message
				})
			case 2:
				mask := t.Flag(1, 2)
				lists[i] = append(lists[i], func(*Task) {
					if mask {
						touch(v.Get(resource.WithReadPaths(&testproto.TestAllTypes{}, "default_int32")))
					} else {
						touch(v.Get())
					}
				})
			default:
				bp, uo := t.Flag(1, 2), t.Flag(1, 3)
				recvs := 1 + t.Choose(3)
				lists[i] = append(lists[i], func(task *Task) {
					ctx, cancel := context.WithCancel(context.Background())
					ch := v.Pull(ctx, resource.WithBackpressure(bp), resource.WithUpdatesOnly(uo))
					for r := 0; r < recvs; r++ {
						task.Yield("recv")
						select {
						case e, ok := <-ch:
							if ok {
								touchEvent(e)
								touch(e.Value)
							}
						default:
						}
					}
					task.Yield("cancel")
					cancel()
					for range ch {
					}
				})
			}
		}
	}
	runOps(w, lists)
	w.Run()
	if stalled != nil {
		stalled()
		w.Run()
	}
}

func raceColl(w *World) {
	t := w.Tape
	cs := []*resource.Collection{resource.NewCollection(resource.WithInitialRecord("a", tam(0)))}
	if t.Flag(1, 3) {
		// two unrelated resources built the default way, side by side: whatever the package shares between its resources
		// is shared between unrelated callers
		cs = append(cs, resource.NewCollection(resource.WithInitialRecord("a", tam(0))))
	}
	ids := []string{"a", "b"}
	nt := 2 + t.Choose(3)
	lists := make([][]raceOp, nt)
	n := int32(0)
	for i := range lists {
		k := 1 + t.Choose(4)
		for j := 0; j < k; j++ {
			n++
			x := n
			id := ids[t.Choose(2)]
			c := cs[t.Choose(len(cs))]
			switch t.Choose(8) {
			case 0:
				opts := raceWriteOpts(t)
				lists[i] = append(lists[i], func(*Task) {
					var got string
					r, _ := c.Add("", tam(x), append(opts, resource.WithGenIDIfAbsent(), resource.WithIDCallback(func(id string) { got = id }), resource.WithCreatedCallback(func() {}))...)
					touch(r)
					_ = got
				})
			case 1:
				opts := raceWriteOpts(t)
				lists[i] = append(lists[i], func(*Task) { r, _ := c.Add(id, tam(x), opts...); touch(r) })
			case 2, 3:
				opts := append(raceWriteOpts(t), resource.WithCreateIfAbsent())
				lists[i] = append(lists[i], func(*Task) { r, _ := c.Update(id, tam(x), opts...); touch(r) })
			case 4:
				// deletes with the preconditions whose callbacks / comparisons read the stored message
				dopts := []resource.WriteOption{resource.WithAllowMissing(true)}
				switch t.Choose(3) {
				case 1:
					dopts = append(dopts, resource.WithExpectedCheck(func(old proto.Message) error {
						touch(old)
						return nil
					}))
				case 2:
					dopts = append(dopts, resource.WithExpectedValue(tam(x-1)))
				}
				lists[i] = append(lists[i], func(*Task) { r, _ := c.Delete(id, dopts...); touch(r) })
			case 5:
				lists[i] = append(lists[i], func(*Task) {
					for _, m := range c.List() {
						touch(m)
					}
					m, _ := c.Get(id)
					touch(m)
				})
			default:
				bp, uo, pid := t.Flag(1, 2), t.Flag(1, 3), t.Flag(1, 3)
				recvs := 1 + t.Choose(3)
				lag := 0
				if t.Flag(1, 3) {
					lag = 2 + t.Choose(4) // a subscriber that falls behind before it reads: changes pile up (and are merged) in the library
				}
				sleepy := !bp && t.Flag(1, 3) // ... or that only comes back when everybody else is done or blocked
				lists[i] = append(lists[i], func(task *Task) {
					ctx, cancel := context.WithCancel(context.Background())
					if pid {
						ch := c.PullID(ctx, id, resource.WithBackpressure(bp), resource.WithUpdatesOnly(uo))
						for r := 0; r < lag; r++ {
							task.Yield("lag")
						}
						if sleepy {
							task.Sleep(200 * time.Millisecond)
						}
						for r := 0; r < recvs; r++ {
							task.Yield("recv")
							select {
							case e, ok := <-ch:
								if ok {
									touchEvent(e)
									touch(e.Value)
								}
							default:
							}
						}
						task.Yield("cancel")
						cancel()
						for range ch {
						}
						return
					}
					ch := c.Pull(ctx, resource.WithBackpressure(bp), resource.WithUpdatesOnly(uo))
					for r := 0; r < lag; r++ {
						task.Yield("lag")
					}
					if sleepy {
						task.Sleep(200 * time.Millisecond)
					}
					for r := 0; r < recvs; r++ {
						task.Yield("recv")
						select {
						case e, ok := <-ch:
							if ok {
								touchEvent(e)
								touch(e.OldValue)
								touch(e.NewValue)
							}
						default:
						}
					}
					task.Yield("cancel")
					cancel()
					for range ch {
					}
				})
			}
		}
	}
	runOps(w, lists)
	w.Run()
}

func raceBus(w *World) {
	t := w.Tape
	var bus minibus.Bus
	nt := 2 + t.Choose(3)
	lists := make([][]raceOp, nt)
	for i := range lists {
		k := 1 + t.Choose(3)
		for j := 0; j < k; j++ {
			if t.Flag(1, 2) {
				x := i*10 + j
				lists[i] = append(lists[i], func(*Task) {
					ctx, cancel := context.WithCancel(context.Background())
					bus.Send(ctx, &x)
					cancel()
				})
			} else {
				recvs := t.Choose(3)
				lists[i] = append(lists[i], func(task *Task) {
					ctx, cancel := context.WithCancel(context.Background())
					ch := bus.Listen(ctx)
					for r := 0; r < recvs; r++ {
						task.Yield("recv")
						select {
						case e, ok := <-ch:
							if ok {
								_ = *(e.(*int))
							}
						default:
						}
					}
					task.Yield("cancel")
					cancel()
					for range ch {
					}
				})
			}
		}
	}
	runOps(w, lists)
	w.Run()
}

func raceRouter(w *World) {
	t := w.Tape
	type client struct{ name string }
	var opts []router.Option
	if t.Flag(2, 3) {
		opts = append(opts, router.WithFactory(func(name string) (any, error) {
			if name == "none" {
				return nil, nil
			}
			return &client{name}, nil
		}))
	}
	if t.Flag(1, 3) {
		opts = append(opts, router.WithFallback(func(name string) (any, error) {
			if name == "fb" {
				return &client{name}, nil
			}
			return nil, nil
		}))
	}
	if t.Flag(1, 2) {
		opts = append(opts, router.WithOnChange(func(c router.Change) {
			if cl, ok := c.New.(*client); ok {
				_ = cl.name
			}
		}))
	}
	r := router.NewRouter(opts...)
	names := []string{"a", "b", "fb", "none"}
	nt := 2 + t.Choose(3)
	lists := make([][]raceOp, nt)
	for i := range lists {
		k := 1 + t.Choose(4)
		for j := 0; j < k; j++ {
			name := names[t.Choose(len(names))]
			switch t.Choose(4) {
			case 0:
				lists[i] = append(lists[i], func(*Task) {
					if old, ok := r.Add(name, &client{name}).(*client); ok {
						_ = old.name
					}
				})
			case 1:
				lists[i] = append(lists[i], func(*Task) { r.Remove(name) })
			case 2:
				lists[i] = append(lists[i], func(*Task) { r.Has(name) })
			default:
				lists[i] = append(lists[i], func(*Task) {
					if c, err := r.Get(name); err == nil {
						_ = c.(*client).name
					}
				})
			}
		}
	}
	runOps(w, lists)
	w.Run()
}

func raceGroup(w *World) {
	t := w.Tape
	n := t.Choose(5)
	strat := group.ExecutionStrategy(t.Choose(7))
	fails := make([]bool, n)
	for i := range fails {
		fails[i] = t.Flag(1, 2)
	}
	// what every member reads and the caller goes on using once the call is over (a request it retries with, say):
	// "not until all executions have completed" is what keeps the two apart
	shared := tam(7)
	var members []group.Member
	for i := 0; i < n; i++ {
		i := i
		members = append(members, func(ctx context.Context) (proto.Message, error) {
			if cur := w.lookup(goid()); cur != nil {
				cur.Yield(fmt.Sprintf("member%d", i))
			} else {
				task := w.Adopt(fmt.Sprintf("m%d", i), false)
				defer task.Done()
			}
			touch(shared)
			if ctx.Err() != nil {
				return nil, ctx.Err()
			}
			if fails[i] {
				return nil, fmt.Errorf("member %d failed", i)
			}
			return tam(int32(i)), nil
		})
	}
	ctx, cancel := context.WithCancel(context.Background())
	if t.Flag(1, 2) {
		k := t.Choose(4)
		w.Go("canceller", false, func(ct *Task) {
			for i := 0; i < k; i++ {
				ct.Yield("wait")
			}
			cancel()
		})
	}
	w.Go("caller", false, func(*Task) {
		res, err := group.Execute(ctx, strat, members)
		for _, r := range res {
			touch(r)
		}
		_ = err
		if s := strat; s != group.ExecutionStrategyFast && s != group.ExecutionStrategyRace {
			// All / Most / Any / One do not return before every member has: the caller has its request back
			shared.DefaultInt32++
		}
	})
	w.Run()
	cancel()
}

func raceModels(w *World) {
	t := w.Tape
	nt := 2 + t.Choose(3)
	lists := make([][]raceOp, nt)
	which := t.Choose(4)
	switch which {
	case 3:
		// a model with housekeeping of its own: the hail model's collector runs inside whichever CreateHail gets its
		// ticket, and the ticket comes back from a timer (here: at once, or after a millisecond)
		m := hailpb.NewModel(hailpb.WithKeepAlive([]time.Duration{0, time.Millisecond, time.Second}[t.Choose(3)]))
		// (nothing is created up front: the collector's first run, too, is some caller's)
		for i := range lists {
			k := 1 + t.Choose(4)
			for j := 0; j < k; j++ {
				switch t.Choose(6) {
				case 0, 1, 2:
					lists[i] = append(lists[i], func(*Task) { r, _ := m.CreateHail(&traits.Hail{}); touch(r) })
				case 3:
					lists[i] = append(lists[i], func(*Task) {
						for _, h := range m.ListHails() {
							touch(h)
						}
					})
				case 4:
					lists[i] = append(lists[i], func(*Task) {
						if hs := m.ListHails(); len(hs) > 0 {
							r, _ := m.UpdateHail(&traits.Hail{Id: hs[0].Id, State: traits.Hail_ARRIVED, ArriveTime: timestamppb.New(time.Now().Add(-time.Hour))})
							touch(r)
						}
					})
				default:
					lists[i] = append(lists[i], func(task *Task) {
						ctx, cancel := context.WithCancel(context.Background())
						ch := m.PullHails(ctx, resource.WithBackpressure(true))
						task.Yield("recv")
						select {
						case e, ok := <-ch:
							if ok {
								touch(e.NewValue)
								touch(e.OldValue)
							}
						default:
						}
						task.Yield("cancel")
						cancel()
						for range ch {
						}
					})
				}
			}
		}
	case 0:
		ms := []*electricpb.Model{electricpb.NewModel(electricpb.WithRNG(rand.New(rand.NewSource(1))), electricpb.WithInitialMode(&traits.ElectricMode{Id: "m1", Normal: true}, &traits.ElectricMode{Id: "m2"}))}
		if t.Flag(1, 3) {
			// two independent devices built the default way (what a process hosting several devices does): anything the
			// package shares between its models is shared between unrelated callers
			ms = []*electricpb.Model{
				electricpb.NewModel(electricpb.WithInitialMode(&traits.ElectricMode{Id: "m1", Normal: true}, &traits.ElectricMode{Id: "m2"})),
				electricpb.NewModel(electricpb.WithInitialMode(&traits.ElectricMode{Id: "m1", Normal: true}, &traits.ElectricMode{Id: "m2"})),
			}
		}
		ids := []string{"m1", "m2", "m3"}
		for i := range lists {
			k := 1 + t.Choose(4)
			for j := 0; j < k; j++ {
				id := ids[t.Choose(3)]
				m := ms[t.Choose(len(ms))]
				switch t.Choose(9) {
				case 0:
					lists[i] = append(lists[i], func(*Task) { r, _ := m.CreateMode(&traits.ElectricMode{Title: "x"}); touch(r) })
				case 1:
					lists[i] = append(lists[i], func(*Task) { r, _ := m.UpdateMode(&traits.ElectricMode{Id: id, Title: "u"}); touch(r) })
				case 2:
					lists[i] = append(lists[i], func(*Task) { _ = m.DeleteMode(id, resource.WithAllowMissing(true)) })
				case 3:
					lists[i] = append(lists[i], func(*Task) { r, _ := m.ChangeActiveMode(id); touch(r) })
				case 4:
					lists[i] = append(lists[i], func(*Task) { r, _ := m.ChangeToNormalMode(); touch(r) })
				case 5:
					lists[i] = append(lists[i], func(*Task) {
						for _, x := range m.Modes() {
							touch(x)
						}
						touch(m.ActiveMode())
						x, _ := m.NormalMode()
						touch(x)
					})
				case 6:
					lists[i] = append(lists[i], func(*Task) {
						r, _ := m.UpdateDemand(&traits.ElectricDemand{Current: 2})
						touch(r)
						touch(m.Demand())
					})
				default:
					kind := t.Choose(3)
					stay := 1 + t.Choose(3)
					lists[i] = append(lists[i], func(task *Task) {
						ctx, cancel := context.WithCancel(context.Background())
						switch kind {
						case 0:
							ch := m.PullModes(ctx)
							task.Yield("recv")
							select {
							case e, ok := <-ch:
								if ok {
									touchEvent(e)
									touch(e.NewValue)
									touch(e.OldValue)
								}
							default:
							}
							task.Yield("cancel")
							cancel()
							for range ch {
							}
						case 1:
							ch := m.PullActiveMode(ctx)
							task.Yield("recv")
							select {
							case e, ok := <-ch:
								if ok {
									touchEvent(e)
									touch(e.ActiveMode)
								}
							default:
							}
							task.Yield("cancel")
							cancel()
							for range ch {
							}
						default:
							// (stays for a few rounds, writing in between: several subscribers of one or of two models are then at
							// work at the same time, each with a goroutine of the library's that looks at every change)
							ch := m.PullDemand(ctx)
							for r := 0; r < stay; r++ {
								task.Yield("recv")
								select {
								case e, ok := <-ch:
									if ok {
										touchEvent(e)
										touch(e.Value)
									}
								default:
								}
								if r+1 < stay {
									x, _ := m.UpdateDemand(&traits.ElectricDemand{Current: float32(3 + r)})
									touch(x)
								}
							}
							task.Yield("cancel")
							cancel()
							for range ch {
							}
						}
					})
				}
			}
		}
	case 1:
		m := parentpb.NewModel()
		// (three traits: a list of three is stored with room for a fourth)
		m.AddChild(&traits.Child{Name: "c1", Traits: []*traits.Trait{{Name: "a"}, {Name: "m"}, {Name: "n"}}})
		names := []string{"c1", "c2"}
		tn := []trait.Name{"a", "b", "m", "x", "y", "z"}
		for i := range lists {
			k := 1 + t.Choose(4)
			for j := 0; j < k; j++ {
				name := names[t.Choose(2)]
				t1, t2 := tn[t.Choose(len(tn))], tn[t.Choose(len(tn))]
				switch t.Choose(6) {
				case 0, 1:
					lists[i] = append(lists[i], func(*Task) { c, _ := m.AddChildTrait(name, t1, t2); touch(c) })
				case 2:
					lists[i] = append(lists[i], func(*Task) { touch(m.RemoveChildTrait(name, t1)) })
				case 3:
					lists[i] = append(lists[i], func(*Task) { c, _ := m.RemoveChildByName(name, resource.WithAllowMissing(true)); touch(c) })
				case 4:
					lists[i] = append(lists[i], func(*Task) {
						for _, c := range m.ListChildren() {
							touch(c)
						}
					})
				default:
					lists[i] = append(lists[i], func(task *Task) {
						ctx, cancel := context.WithCancel(context.Background())
						ch := m.PullChildren(ctx)
						task.Yield("recv")
						select {
						case e, ok := <-ch:
							if ok {
								touchEvent(e)
								touch(e.NewValue)
								touch(e.OldValue)
							}
						default:
						}
						task.Yield("cancel")
						cancel()
						for range ch {
						}
					})
				}
			}
		}
	default:
		m := metadatapb.NewModel()
		for i := range lists {
			k := 1 + t.Choose(4)
			for j := 0; j < k; j++ {
				tr := []string{"ta", "tb"}[t.Choose(2)]
				switch t.Choose(7) {
				case 0:
					lists[i] = append(lists[i], func(*Task) {
						r, _ := m.UpdateTraitMetadata(&traits.TraitMetadata{Name: tr, More: map[string]string{"k": "v"}})
						touch(r)
					})
				case 1:
					lists[i] = append(lists[i], func(*Task) {
						r, _ := m.MergeMetadata(&traits.Metadata{Name: "n", Traits: []*traits.TraitMetadata{{Name: tr}}})
						touch(r)
					})
				case 2:
					lists[i] = append(lists[i], func(*Task) {
						r, _ := m.UpdateMetadata(&traits.Metadata{Name: "x", Traits: []*traits.TraitMetadata{{Name: "zz"}, {Name: tr}, {Name: "aa"}}})
						touch(r)
					})
				case 5:
					lists[i] = append(lists[i], func(*Task) {
						r, _ := m.MergeMetadata(&traits.Metadata{Membership: &traits.Metadata_Membership{Subsystem: "s"}})
						touch(r)
					})
				case 3:
					lists[i] = append(lists[i], func(*Task) { r, _ := m.GetMetadata(); touch(r) })
				default:
					lists[i] = append(lists[i], func(task *Task) {
						ctx, cancel := context.WithCancel(context.Background())
						ch := m.PullMetadata(ctx)
						task.Yield("recv")
						select {
						case e, ok := <-ch:
							if ok {
								touchEvent(e)
								touch(e.Metadata)
							}
						default:
						}
						task.Yield("cancel")
						cancel()
						for range ch {
						}
					})
				}
			}
		}
	}
	runOps(w, lists)
	w.Run()
}

// ---- wrapped clients ---------------------------------------------------------------------------------------------------

type raceWrapServer struct {
	testproto.UnimplementedTestApiServer
	w      *World
	n      int
	fail   bool
	header bool
	task   *Task
}

func (s *raceWrapServer) adopt() func() {
	t := s.w.Adopt("srv", false)
	s.task = t
	return t.Detach
}

// readMD reads a metadata map the way a caller does: all of it.
func readMD(md metadata.MD) (n int) {
	for k, vs := range md {
		n += len(k)
		for _, v := range vs {
			n += len(v)
		}
	}
	return n
}

func (s *raceWrapServer) Unary(ctx context.Context, req *testproto.UnaryRequest) (*testproto.UnaryResponse, error) {
	defer s.adopt()()
	_ = grpc.SetHeader(ctx, metadata.Pairs("x-h", req.Msg))
	_ = grpc.SetTrailer(ctx, metadata.Pairs("x-t", "t"))
	// (a handler adds to its trailer as it goes; the caller may have given up, and picked up what there was, meanwhile)
	for i := 0; i < s.n; i++ {
		s.task.Yield("trailer")
		_ = grpc.SetTrailer(ctx, metadata.Pairs("x-t", fmt.Sprint("t", i), fmt.Sprint("x-t", i), "u"))
	}
	if s.fail {
		return nil, status.Error(codes.NotFound, "nope")
	}
	resp := &testproto.UnaryResponse{Msg: "r:" + req.Msg}
	return resp, nil
}

func (s *raceWrapServer) BidiStream(st grpc.BidiStreamingServer[testproto.BidiStreamRequest, testproto.BidiStreamResponse]) error {
	defer s.adopt()()
	if s.header {
		_ = st.SetHeader(metadata.Pairs("x-h", "1"))
	}
	for i := 0; i < s.n; i++ {
		m, err := st.Recv()
		if err != nil {
			st.SetTrailer(metadata.Pairs("x-t", "recv-failed"))
			return err
		}
		out := &testproto.BidiStreamResponse{Msg: "echo:" + m.Msg}
		if err := st.Send(out); err != nil {
			st.SetTrailer(metadata.Pairs("x-t", "send-failed"))
			return err
		}
		out.Msg = "changed-after-send" // a sender may reuse its message
		if s.header {
			st.SetTrailer(metadata.Pairs("x-t", fmt.Sprint("t", i), fmt.Sprint("x-t", i), "u"))
		}
	}
	s.task.Yield("trailer")
	st.SetTrailer(metadata.Pairs("x-t", "t"))
	if s.fail {
		return status.Error(codes.Aborted, "done")
	}
	return nil
}

func raceWrap(w *World) {
	t := w.Tape
	srv := &raceWrapServer{w: w, n: t.Choose(4), fail: t.Flag(1, 2), header: t.Flag(1, 2)}
	client := testproto.NewTestApiClient(wrap.ServerToClient(testproto.TestApi_ServiceDesc, srv))
	unary := t.Flag(1, 3)
	cancelEarly := t.Flag(1, 4)
	w.Go("cli", false, func(task *Task) {
		ctx, cancel := context.WithCancel(context.Background())
		defer cancel()
		if unary {
			var h, tr metadata.MD
			req := &testproto.UnaryRequest{Msg: "q"}
			if cancelEarly {
				// somebody else gives up on the call while the handler is still at work: the caller gets its request back
				w.Go("canceller", false, func(ct *Task) {
					ct.Yield("cancel")
					cancel()
				})
			}
			resp, err := client.Unary(ctx, req, grpc.Header(&h), grpc.Trailer(&tr))
			req.Msg = "changed-after-call"
			if err == nil {
				_ = len(resp.Msg)
			}
			_ = readMD(h) + readMD(tr)
			return
		}
		st, err := client.BidiStream(ctx)
		if err != nil {
			return
		}
		for i := 0; i < srv.n; i++ {
			task.Yield("send")
			m := &testproto.BidiStreamRequest{Msg: fmt.Sprint("m", i)}
			if err := st.Send(m); err != nil {
				break
			}
			m.Msg = "changed-after-send"
			task.Yield("recv")
			r, err := st.Recv()
			if err != nil {
				break
			}
			_ = len(r.Msg)
			if cancelEarly && i == 0 {
				cancel()
			}
		}
		task.Yield("close")
		_ = st.CloseSend()
		for {
			if _, err := st.Recv(); err != nil {
				break
			}
		}
		h, _ := st.Header()
		_ = readMD(h) + readMD(st.Trailer())
	})
	w.Run()
}

// raceServers: every discovered model server / memory device with a Get/Update/Pull triple, called directly (no
// wrapper in between, so that the callers really overlap inside the server): 2-3 tasks issue Update and Get requests
// built by reflection at the same time. State that a server keeps besides its resources (timers, caches, counters)
// is shared between those callers.
func raceServers(w *World) {
	triplesOnce.Do(discoverTriples)
	t := w.Tape
	if len(triples) == 0 {
		return
	}
	tr := triples[t.Choose(len(triples))]
	w.Mix(tr.what + "/" + tr.x)
	srv := reflect.ValueOf(tr.server())
	upd, get := srv.MethodByName(string(tr.update.Name())), srv.MethodByName(string(tr.get.Name()))
	if !upd.IsValid() || !get.IsValid() {
		return
	}
	p := &prng{s: uint64(1 + t.Choose(1<<20))}
	nt := 2 + t.Choose(2)
	lists := make([][]raceOp, nt)
	for i := range lists {
		for k, n := 0, 1+t.Choose(3); k < n; k++ {
			if t.Flag(1, 4) {
				req := newMsg(tr.get.Input())
				lists[i] = append(lists[i], func(*Task) {
					res := get.Call([]reflect.Value{reflect.ValueOf(context.Background()), reflect.ValueOf(req)})
					if m, ok := res[0].Interface().(proto.Message); ok && !res[0].IsNil() {
						touch(m)
					}
				})
				continue
			}
			req := newMsg(tr.update.Input())
			val := newMsg(tr.resource)
			fillMessage(val.ProtoReflect(), p, 2)
			req.ProtoReflect().Set(tr.updField, protoreflect.ValueOfMessage(val.ProtoReflect()))
			reuse := t.Flag(1, 2)
			lists[i] = append(lists[i], func(*Task) {
				res := upd.Call([]reflect.Value{reflect.ValueOf(context.Background()), reflect.ValueOf(req)})
				if m, ok := res[0].Interface().(proto.Message); ok && !res[0].IsNil() {
					touch(m)
				}
				if reuse {
					scribbleReflect(req.ProtoReflect(), 3) // the request is the caller's again: whatever the server still does must not look at it
				}
			})
		}
	}
	runOps(w, lists)
	w.Advance(5 * time.Second) // timer-driven work the updates started runs out
	w.Run()
}
