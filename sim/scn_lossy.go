package verifsim

import (
	"context"
	"fmt"
	"strings"
	"time"

	"google.golang.org/grpc/codes"

	"github.com/smart-core-os/sc-api/go/types"
)

// C09 — lossy delivery preserves the folded view; slow readers never block writers; backpressured Value writes time
// out instead of hanging (DESIGN.md §5 C09).

func init() {
	register(&Scenario{Name: "lossy-nowait", Prop: "C09", Faulty: true, Doc: "phase A: 1-2 writers (up to 6 writes each over ids {a,b}) while every lossy subscriber is stalled: writes must finish with no fake time passing; phase B: consumers drain: every event applicable to the consumer's own view (ADD absent, UPDATE/REPLACE/REMOVE present, old values chain), final view == store",
		Run:  func(w *World) { lossyRun(w, true) },
		Real: []string{"pkg/resource Value/Collection", "minibus.DropExcess", "mergeCollectionExcess"}, Stub: []string{"writer/consumer tasks"}})
	register(&Scenario{Name: "lossy-paced", Prop: "C09", Faulty: true, Doc: "writers and lossy + backpressured consumers run concurrently, consumer pace = schedule (stalls of tape-chosen length); writers finish, lossy streams are valid edit scripts of the consumer's own view and converge; backpressured streams lose nothing",
		Run:  func(w *World) { lossyRun(w, false) },
		Real: []string{"pkg/resource Value/Collection", "minibus.DropExcess", "mergeCollectionExcess"}, Stub: []string{"writer/consumer tasks"}})
	register(&Scenario{Name: "bp-slow", Prop: "C09", Faulty: true, Doc: "Value with a backpressured consumer that keeps receiving but slowly (1-4 s of fake time between receives, discrete-event sleep) and 1-4 concurrent writers queued behind each other: no single delivery takes 5 s, so every Set must succeed, nothing may be dropped and the consumer ends on the final value; one run in three a Collection instead, whose consumer may take 5-8 s per event: its writers wait, every write succeeds and nothing is dropped",
		Run:  bpSlowRun,
		Real: []string{"pkg/resource Value (5 s send timeout, publish queue), Collection", "internal/minibus"}, Stub: []string{"writer/consumer tasks", "fake clock"}})
	register(&Scenario{Name: "bp-timeout", Prop: "C09", Faulty: true, Doc: "Value with a backpressured consumer that stops receiving after j events (abandon) and maybe cancels later; 1-2 writers; fake time advances only when nothing else can run: every Set returns, with an error exactly when 5 s of fake time passed inside the call",
		Run:  bpTimeoutRun,
		Real: []string{"pkg/resource Value (5 s send timeout)", "internal/minibus"}, Stub: []string{"writer/consumer tasks", "fake clock"}})
}

func lossyRun(w *World, stalled bool) {
	t := w.Tape
	coll := t.Flag(2, 3)
	g := &opGen{tape: t, coll: coll, ids: []string{"a", "b"}}
	var cfg resCfg
	g.initial(&cfg)
	if !coll && t.Flag(1, 3) {
		// a Value with an equivalence under which writes that differ only in V are equivalent: the most recent value a
		// lossy subscriber ends on must then agree with the store up to that equivalence
		cfg.EquivNoV, g.pool = true, true
		// ... sometimes with a tolerance on N on top (small steps that add up: the subscriber's most recent value may be
		// within the tolerance of the store's, not further)
		cfg.EquivTolN = t.Flag(1, 2)
	}
	r := newRealRes(cfg, &simClock{}, &simRNG{})
	m0 := newModel(cfg)
	ns := 1 + t.Choose(3)
	var subs []*subscriber
	for i := 0; i < ns; i++ {
		ctx, cancel := context.WithCancel(context.Background())
		sc := subCfg{UpdatesOnly: t.Flag(1, 4)}
		if !stalled {
			sc.Backpressure = t.Flag(1, 3)
		}
		if coll && t.Flag(1, 4) {
			// an include predicate: the subscriber's view is then the filtered collection's, through the same lossy stages
			sc.Include = &inclTable{arith: true}
		} else if coll && !stalled && t.Flag(1, 4) {
			// a subscription to one item: it shows the item's most recent value for as long as the item exists (also when
			// the item went away and came back while the subscriber was not looking), and ends when the item is gone
			sc.UsePullID, sc.PullID = true, "a"
		}
		s := &subscriber{name: fmt.Sprintf("s%d", i), cfg: sc, ctx: ctx, cancel: cancel}
		if !stalled && t.Flag(1, 4) {
			s.lag = []time.Duration{200 * time.Millisecond, time.Second}[t.Choose(2)] // comes for its first event when the writers are done or blocked
		}
		s.open(r) // opened at a quiescent point, before any writer exists
		subs = append(subs, s)
	}
	nw := 1 + t.Choose(2)
	var writers []*writer
	for i := 0; i < nw; i++ {
		wr := &writer{name: fmt.Sprintf("w%d", i)}
		n := 1 + t.Choose(6)
		for j := 0; j < n; j++ {
			o := g.writeOp()
			o.HasExpect, o.HasCheck = false, false // keep most writes successful: long event sequences per id
			wr.ops = append(wr.ops, o)
		}
		writers = append(writers, wr)
	}
	consumer := func(s *subscriber) {
		w.Go(s.name, true, func(t *Task) {
			if s.lag > 0 {
				t.Sleep(s.lag)
			}
			for {
				t.Yield("recv")
				if !stalled && t.W.Tape.Flag(1, 6) {
					// stall for a few scheduling rounds
					k := 1 + t.W.Tape.Choose(4)
					t.W.Fault("stall")
					for i := 0; i < k; i++ {
						t.Yield("stalled")
					}
				}
				if !s.recv(w) {
					return
				}
			}
		})
	}
	var late []*subscriber
	var leave context.CancelFunc
	if !stalled && t.Flag(1, 3) {
		// subscribers come and go while the writers are at work: one leaves (its listener stays in the bus's list until a
		// later Send notices), others arrive - in the middle of a Send as well - and are owed everything from their seed on
		ctx, cancel := context.WithCancel(context.Background())
		leave = cancel
		lv := &subscriber{name: "leaver", cfg: subCfg{Backpressure: t.Flag(1, 2)}, ctx: ctx, cancel: cancel}
		lv.open(r)
		stay := t.Choose(3)
		w.Go(lv.name, true, func(task *Task) {
			for i := 0; i < stay; i++ {
				task.Yield("recv")
				if !lv.recv(w) {
					return
				}
			}
			task.Yield("leave")
			cancel()
			for lv.recv(w) {
			}
		})
		for i, n := 0, 1+t.Choose(2); i < n; i++ {
			ctx, cancel := context.WithCancel(context.Background())
			ls := &subscriber{name: fmt.Sprintf("late%d", i), cfg: subCfg{Backpressure: t.Flag(1, 3)}, ctx: ctx, cancel: cancel}
			wait := t.Choose(10)
			late = append(late, ls)
			w.Go(ls.name, true, func(task *Task) {
				for k := 0; k < wait; k++ {
					task.Yield("later")
				}
				ls.open(r)
				for {
					task.Yield("recv")
					if !ls.recv(w) {
						return
					}
				}
			})
		}
		w.Fault("come-and-go")
	}
	t0 := time.Now()
	for _, wr := range writers {
		wr := wr
		w.Go(wr.name, false, func(t *Task) { wr.run(t, r) })
	}
	if !stalled {
		for _, s := range subs {
			consumer(s)
		}
	} else {
		w.Fault("stall")
	}
	w.Run()
	if w.truncated {
		for _, s := range subs {
			s.cancel()
		}
		w.Run()
		return
	}
	if w.Deadlocked || len(w.Unfinished(false)) > 0 {
		what := "although the only subscribers are lossy and stalled"
		if !stalled {
			what = "although every backpressured consumer keeps receiving"
		}
		w.Violate("writer-blocked", "writers did not finish "+what+": "+strings.Join(w.Unfinished(true), ","), map[string]any{"stalled": stalled})
	} else if stalled {
		if el := time.Since(t0); el > time.Millisecond {
			w.Violate("writer-waited", fmt.Sprintf("%v of fake time passed while writing with only stalled lossy subscribers", el), nil)
		}
		for _, wr := range writers {
			for _, h := range wr.hist {
				if h.Res.Code != codes.OK && h.Res.Code != codes.Aborted && h.Res.Code != codes.NotFound && h.Res.Code != codes.AlreadyExists && h.Res.Code != codes.Unavailable {
					w.Violate("write-failed", "write failed with lossy subscribers only: "+h.String(), nil)
				}
			}
		}
		// phase B: drain
		for _, s := range subs {
			consumer(s)
		}
		w.Run()
	}
	// oracle at quiescence
	if !w.truncated && !w.Deadlocked {
		w.Go("oracle", false, func(t *Task) {
			for _, s := range subs {
				lossyCheck(w, r, m0, coll, s)
			}
			for _, s := range late {
				if s.opened {
					lossyCheck(w, r, m0, coll, s)
				}
			}
		})
		w.Run()
	}
	for _, s := range append(subs, late...) {
		s.cancel()
	}
	if leave != nil {
		leave()
	}
	w.Run()
}

// lossyCheck validates one consumer's stream as an edit script of its own view and compares the final view with the store.
func lossyCheck(w *World, r *realRes, m0 *model, coll bool, s *subscriber) {
	mode := "lossy"
	if s.cfg.Backpressure {
		mode = "backpressure"
	}
	w.Note("%s[%s]: %s", s.name, s.cfg, eventsString(s.events))
	if !coll {
		cur := r.apply(wop{Kind: opGet})
		if len(s.events) == 0 {
			if cur.HasMsg && !s.cfg.UpdatesOnly {
				w.Violate("not-latest", fmt.Sprintf("%s [%s] received nothing, the value is %s", s.name, s.cfg, cur.Msg), map[string]any{"resource": "value", "mode": mode})
			}
			// an updates-only subscriber with no events: fine only if nothing was written, which the caller cannot tell here
			return
		}
		last := s.events[len(s.events)-1]
		a, b := last.New, cur.Msg
		if r.cfg.EquivNoV {
			a.V, b.V = 0, 0
		}
		if d := a.N - b.N; r.cfg.EquivTolN && d >= -1 && d <= 1 {
			a.N, b.N = 0, 0 // (within the tolerance of what the subscriber was told last)
		}
		if !cur.HasMsg || a != b {
			w.Violate("not-latest", fmt.Sprintf("%s [%s] last received %s, the value is %s; events: %s", s.name, s.cfg, last.New, cur, eventsString(s.events)), map[string]any{"resource": "value", "mode": mode})
		}
		return
	}
	if s.cfg.UsePullID {
		g := r.apply(wop{Kind: opGet, ID: s.cfg.PullID})
		switch {
		case !g.Found && !s.closed && len(s.events) > 0:
			w.Violate("not-latest", fmt.Sprintf("%s [%s]: item %q is gone, the stream has shown it and is still open; events: %s", s.name, s.cfg, s.cfg.PullID, eventsString(s.events)), map[string]any{"resource": "collection", "mode": mode})
		case g.Found && !s.closed && !s.cfg.UpdatesOnly && (len(s.events) == 0 || s.events[len(s.events)-1].New != g.Msg):
			w.Violate("not-latest", fmt.Sprintf("%s [%s]: item %q is %s, the stream's last event is not that; events: %s", s.name, s.cfg, s.cfg.PullID, g.Msg, eventsString(s.events)), map[string]any{"resource": "collection", "mode": mode})
		}
		return
	}
	keep := func(id string, v mm) bool { return s.cfg.Include == nil || s.cfg.Include.eval(id, false, v.V) }
	view := map[string]mm{}
	if s.cfg.UpdatesOnly {
		for id, v := range m0.items {
			if keep(id, v) {
				view[id] = v
			}
		}
	}
	for i, e := range s.events {
		cur, has := view[e.ID]
		bad := ""
		switch e.Type {
		case types.ChangeType_ADD:
			if has {
				bad = "ADD of an item the subscriber already holds"
			} else if e.HasOld {
				bad = "ADD carrying an old value"
			}
		case types.ChangeType_UPDATE, types.ChangeType_REPLACE:
			if !has {
				bad = e.Type.String() + " of an item the subscriber does not hold"
			} else if !e.HasOld || e.Old != cur {
				bad = fmt.Sprintf("old value does not chain: the subscriber holds %s", cur)
			}
		case types.ChangeType_REMOVE:
			if !has {
				bad = "REMOVE of an item the subscriber does not hold"
			} else if !e.HasOld || e.Old != cur {
				bad = fmt.Sprintf("old value does not chain: the subscriber holds %s", cur)
			}
		default:
			bad = "unknown change type"
		}
		if e.Seed && s.cfg.UpdatesOnly {
			bad = "seed event on an updates-only subscription"
		}
		if bad != "" {
			w.Violate("invalid-edit-script", fmt.Sprintf("%s [%s] event %d %s: %s\n  events: %s", s.name, s.cfg, i, e, bad, eventsString(s.events)),
				map[string]any{"mode": mode, "event": e.Type.String()})
			return
		}
		if e.Type == types.ChangeType_REMOVE {
			delete(view, e.ID)
		} else {
			view[e.ID] = e.New
		}
	}
	store := map[string]mm{}
	for _, id := range []string{"a", "b"} {
		if g := r.apply(wop{Kind: opGet, ID: id}); g.Found && keep(id, g.Msg) {
			store[id] = g.Msg
		}
	}
	if viewString(view) != viewString(store) {
		w.Violate("view-diverged", fmt.Sprintf("%s [%s] folded view {%s}, store {%s}\n  events: %s", s.name, s.cfg, viewString(view), viewString(store), eventsString(s.events)),
			map[string]any{"mode": mode})
	}
}

// bpTimeoutRun: bounded failure of backpressured Value writes.
func bpTimeoutRun(w *World) {
	t := w.Tape
	cfg := resCfg{}
	if t.Flag(1, 2) {
		cfg.HasInitial, cfg.InitialVal = true, mm{V: 100}
	}
	r := newRealRes(cfg, &simClock{}, &simRNG{})
	ctx, cancel := context.WithCancel(context.Background())
	s := &subscriber{name: "s0", cfg: subCfg{Backpressure: true, UpdatesOnly: t.Flag(1, 3)}, ctx: ctx, cancel: cancel}
	s.stopAfter = 1 + t.Choose(3)
	if t.Flag(1, 4) {
		s.stopAfter = 0 // keeps receiving: no write may fail
	}
	s.open(r)
	lateCancel := t.Flag(1, 3)
	w.Go(s.name, true, func(t *Task) {
		for {
			if s.stopAfter > 0 && len(s.events) >= s.stopAfter {
				s.abandoned = true
				t.W.Fault("abandon")
				t.Yield("abandon")
				if lateCancel {
					t.W.Fault("cancel")
					s.cancel()
				}
				<-s.ctx.Done()
				return
			}
			t.Yield("recv")
			if !s.recv(w) {
				return
			}
		}
	})
	type call struct {
		h       hop
		elapsed time.Duration
	}
	nw := 1 + t.Choose(2)
	calls := make([][]call, nw)
	var nextV int32
	for i := 0; i < nw; i++ {
		i := i
		n := 1 + t.Choose(3)
		var ops []wop
		for j := 0; j < n; j++ {
			nextV++
			ops = append(ops, wop{Kind: opSet, Val: mm{V: nextV}})
		}
		w.Go(fmt.Sprintf("w%d", i), false, func(t *Task) {
			for _, o := range ops {
				t.Yield("op")
				t0 := time.Now()
				h := hop{Task: t.Name, Op: o, Inv: t.W.Step()}
				h.Res = r.apply(o)
				h.Ret = t.W.Step()
				calls[i] = append(calls[i], call{h, time.Since(t0)})
				t.Note("%s elapsed=%v", h, time.Since(t0))
			}
		})
	}
	w.IdleAdvance, w.IdleAdvanceN = 6*time.Second, 12
	w.Run()
	if w.Deadlocked || len(w.Unfinished(false)) > 0 {
		if !w.truncated {
			w.Violate("write-hangs", "a Value write neither returned nor failed although fake time was advanced by 72 s: "+strings.Join(w.Unfinished(true), ","), nil)
		}
	}
	for i := range calls {
		for _, c := range calls[i] {
			failed := c.h.Res.Code != codes.OK && c.h.Res.Code != codes.Aborted
			switch {
			case c.elapsed < 5*time.Second && failed:
				w.Violate("spurious-failure", fmt.Sprintf("%s failed after only %v of fake time", c.h, c.elapsed), nil)
			case c.elapsed >= 5*time.Second && c.h.Res.Code == codes.OK:
				// The call took 5 s or more in total; that is legitimate only if the wait was for earlier writers' turns
				// (their own sends timed out), never for its own send: its own send may block for at most 5 s and then must fail.
				// Without knowing the split, accept success only when another writer's call overlapped and failed.
				overlapFailed := false
				for j := range calls {
					for _, d := range calls[j] {
						if j != i && d.h.Res.Code != codes.OK && d.h.Inv <= c.h.Ret && d.h.Ret >= c.h.Inv {
							overlapFailed = true
						}
					}
				}
				if !overlapFailed {
					w.Violate("late-success", fmt.Sprintf("%s reported success after blocking for %v", c.h, c.elapsed), nil)
				}
			case c.elapsed > 11*time.Second:
				w.Violate("late-failure", fmt.Sprintf("%s returned only after %v of fake time (two writers: at most 5 s waiting for the other's timeout plus 5 s of its own)", c.h, c.elapsed), nil)
			}
			if c.h.Res.Code != codes.OK && c.h.Res.Code != codes.Aborted && c.h.Res.Code != codes.Unknown {
				w.Violate("spurious-failure", "unexpected status: "+c.h.String(), nil)
			}
		}
	}
	if s.stopAfter == 0 {
		for i := range calls {
			for _, c := range calls[i] {
				if c.h.Res.Code != codes.OK && c.h.Res.Code != codes.Aborted {
					w.Violate("spurious-failure", "write failed although the consumer keeps receiving: "+c.h.String(), nil)
				}
			}
		}
	}
	s.cancel()
	w.Run()
}

// bpSlowRun: a slow but receiving backpressured consumer must never make a write fail.
func bpSlowRun(w *World) {
	t := w.Tape
	cfg := resCfg{HasInitial: true, InitialVal: mm{V: 100}}
	// (one run in three: a Collection. Nothing is said about a bound on its writers' wait, so the consumer may take
	// longer than 5 s over an event: the writers wait, and nothing is dropped)
	coll := t.Flag(1, 3)
	if coll {
		cfg = resCfg{Coll: true, Initial: map[string]mm{"a": {V: 100}}}
	}
	r := newRealRes(cfg, &simClock{}, &simRNG{})
	ctx, cancel := context.WithCancel(context.Background())
	s := &subscriber{name: "s0", cfg: subCfg{Backpressure: true, UpdatesOnly: t.Flag(1, 3)}, ctx: ctx, cancel: cancel}
	s.open(r)
	pause := time.Duration(1+t.Choose(4)) * time.Second
	if coll && t.Flag(1, 2) {
		pause = time.Duration(5+t.Choose(4)) * time.Second
	}
	w.Go(s.name, true, func(task *Task) {
		for {
			task.Yield("recv")
			if !s.recv(w) {
				return
			}
			w.Fault("stall")
			task.Sleep(pause)
		}
	})
	nw := 1 + t.Choose(4)
	var nextV int32
	total := 0
	type call struct {
		h       hop
		elapsed time.Duration
	}
	calls := make([][]call, nw)
	for i := 0; i < nw; i++ {
		i := i
		n := 1 + t.Choose(3)
		var ops []wop
		for j := 0; j < n; j++ {
			nextV++
			total++
			if coll {
				ops = append(ops, wop{Kind: opUpdate, ID: []string{"a", "b"}[t.Choose(2)], CreateIfAbs: true, Val: mm{V: nextV}})
			} else {
				ops = append(ops, wop{Kind: opSet, Val: mm{V: nextV}})
			}
		}
		w.Go(fmt.Sprintf("w%d", i), false, func(task *Task) {
			for _, o := range ops {
				task.Yield("op")
				t0 := time.Now()
				h := hop{Task: task.Name, Op: o, Inv: w.Step()}
				h.Res = r.apply(o)
				h.Ret = w.Step()
				calls[i] = append(calls[i], call{h, time.Since(t0)})
				task.Note("%s elapsed=%v", h, time.Since(t0))
			}
		})
	}
	w.SetMaxSteps(3000)
	w.Run()
	if !w.truncated {
		if w.Deadlocked || len(w.Unfinished(false)) > 0 {
			w.Violate("write-hangs", "writers did not finish although the consumer keeps receiving: "+strings.Join(w.Unfinished(true), ","), nil)
		}
		ok := 0
		for i := range calls {
			for _, c := range calls[i] {
				switch c.h.Res.Code {
				case codes.OK:
					ok++
				case codes.Aborted:
				default:
					w.Violate("spurious-failure", fmt.Sprintf("%s failed after %v although the consumer takes an event every %v", c.h, c.elapsed, pause), map[string]any{"slow": true, "coll": coll})
				}
			}
		}
		// nothing dropped: the consumer saw every successful write exactly once, and ends on the stored value
		got := 0
		seen := map[int32]int{}
		for _, e := range s.events {
			if !e.Seed {
				got++
				seen[e.New.V]++
			}
		}
		for v, n := range seen {
			if n != 1 {
				w.Violate("duplicate-event", fmt.Sprintf("value v%d delivered %d times: %s", v, n, eventsString(s.events)), nil)
			}
		}
		if got != ok {
			w.Violate("event-dropped", fmt.Sprintf("%d writes succeeded but the backpressured consumer, which kept receiving (an event every %v), got %d events: %s", ok, pause, got, eventsString(s.events)), map[string]any{"coll": coll})
		}
		if cur := r.apply(wop{Kind: opGet}); !coll && len(s.events) > 0 && cur.HasMsg && s.events[len(s.events)-1].New != cur.Msg && ok > 0 {
			w.Violate("not-latest", fmt.Sprintf("the consumer's last event is %s, the value is %s", s.events[len(s.events)-1].New, cur.Msg), map[string]any{"resource": "value", "mode": "backpressure"})
		}
	}
	s.cancel()
	w.Run()
}
