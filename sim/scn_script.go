package verifsim

import (
	"context"
	"fmt"
	"strings"
	"time"

	"google.golang.org/grpc/codes"

	"github.com/smart-core-os/sc-api/go/types"
	"github.com/smart-core-os/sc-golang/internal/testproto"
	"github.com/smart-core-os/sc-golang/pkg/resource"
)

// C04 — with backpressure the stream is an exact, ordered edit script (DESIGN.md §5 C04).
//
// One writer task performs the whole write history (successful and failing writes never overlap each other or a Pull
// call); 1-3 backpressured consumers are opened between writes and receive at a pace decided by the scheduler.

func init() {
	register(&Scenario{Name: "script-value", Prop: "C04", Doc: "one writer (Set with masks / CAS / check / delta / write time, failing writes included), 1-3 backpressured Pull consumers opened between writes, equivalence on/off; received stream == edit script derived from the writer log through the reference model",
		Run:  func(w *World) { scriptRun(w, false) },
		Real: []string{"pkg/resource Value", "internal/minibus"}, Stub: []string{"writer/consumer tasks", "reference model", "clock"}})
	register(&Scenario{Name: "script-coll", Prop: "C04", Doc: "one writer (Add/Update/Delete incl. failing ones and WithWriteTime), 1-3 backpressured Pull consumers (read masks; 1 in 4 with an include predicate that reads a field the mask may omit) opened between writes, initial contents empty/one/many, equivalence on/off; received stream == edit script from the reference model",
		Run:  func(w *World) { scriptRun(w, true) },
		Real: []string{"pkg/resource Collection", "internal/minibus"}, Stub: []string{"writer/consumer tasks", "reference model", "clock"}})
}

type expEv struct {
	sev
	Optional bool      // may be suppressed by the configured equivalence
	Tol      bool      // may be suppressed if it is within the tolerance of what the subscriber was last sent
	OldEq    bool      // (Tol) the write's new value is within the tolerance of the value it replaced
	T0, T1   time.Time // window the change time must lie in (when !Exact)
	Exact    bool      // change time must equal T0
	What     string
}

type scriptSub struct {
	*subscriber
	slow   bool // takes six seconds (fake time) over every event
	openAt int  // opened after this many writer ops
	expect []expEv
}

func scriptRun(w *World, coll bool) {
	t := w.Tape
	// (in half of the runs every message has a constant nested part and somebody keeps reading with a read mask that
	// reaches into it: whatever such a read does, what the subscribers are sent must stay whole)
	cfg := resCfg{Coll: coll, Equiv: t.Flag(1, 3), Ballast: t.Flag(1, 2)}
	// a Value with an equivalence that is a tolerance (messages that differ only in V, or in N by at most 1, count as
	// the same): not transitive, so what is suppressed depends on what the subscriber was last told - small steps add up
	tol := !coll && !cfg.Equiv && t.Flag(1, 3)
	if tol {
		cfg.EquivNoV, cfg.EquivTolN = true, true
	}
	var nextV int32
	fresh := func() int32 { nextV++; return nextV }
	ids := []string{"a", "b", "c"}
	clock := &simClock{}
	c0 := clock.Peek()
	if coll {
		cfg.Initial = map[string]mm{}
		switch t.Choose(3) {
		case 1:
			cfg.Initial["b"] = mm{V: fresh()}
		case 2:
			for _, id := range ids {
				cfg.Initial[id] = mm{V: fresh(), S: "i"}
			}
		}
	} else if t.Flag(2, 3) {
		cfg.HasInitial, cfg.InitialVal = true, mm{V: fresh()}
	}
	r := newRealRes(cfg, clock, &simRNG{})
	c1 := clock.Peek().Add(time.Microsecond)
	m := newModel(cfg)
	// per id: window (or exact time) of the last successful write, for seed change times
	type stamp struct {
		t0, t1 time.Time
		exact  bool
	}
	lastWrite := map[string]stamp{}
	for _, id := range append([]string{""}, ids...) {
		lastWrite[id] = stamp{t0: c0, t1: c1}
	}

	nops := 1 + t.Choose(8)
	ns := 1 + t.Choose(3)
	var subs []*scriptSub
	for i := 0; i < ns; i++ {
		ctx, cancel := context.WithCancel(context.Background())
		sc := subCfg{Backpressure: true, UpdatesOnly: t.Flag(1, 3)}
		switch t.Choose(5) {
		case 1:
			sc.RMaskSet, sc.RMask = true, []string{fV}
		case 2:
			sc.RMaskSet, sc.RMask = true, []string{fS}
			if tol {
				sc.RMask = []string{fV, fS} // (events stay attributable to their writes)
			}
		case 3:
			sc.RMaskSet, sc.RMask = true, []string{fV, fN}
		}
		if coll && t.Flag(1, 4) {
			// an include predicate over (id, value): the stream is then the edit script of the filtered collection; the
			// predicate reads a field (V) that the read mask may leave out - it must be evaluated on the stored item
			sc.Include = &inclTable{arith: true}
		}
		subs = append(subs, &scriptSub{subscriber: &subscriber{name: fmt.Sprintf("s%d", i), cfg: sc, ctx: ctx, cancel: cancel}, openAt: t.Choose(nops + 1), slow: coll && i == 0 && t.Flag(1, 5)})
	}
	masks := [][]string{{fV}, {fV, fN}, {fS}, {}, {"nope"}, {fN}}
	var hist []hop
	// per writer op: what a subscriber needs to derive its expected event; snapshots of the model and of the change time
	// stamps after 0, 1, 2, ... ops (for a subscriber that arrives while the writer is at work)
	type opRec struct {
		o      wop
		res    wres
		before *model
		st     stamp
	}
	var recs []*opRec // nil for writes that failed or changed nothing
	snaps := []*model{m.clone()}
	copyStamps := func() map[string]stamp {
		c := map[string]stamp{}
		for k, v := range lastWrite {
			c[k] = v
		}
		return c
	}
	stamps := []map[string]stamp{copyStamps()}
	started, completed := 0, 0
	seedFor := func(s *scriptSub, m *model, lastWrite map[string]stamp) []expEv {
		var out []expEv
		if s.cfg.UpdatesOnly {
			return nil
		}
		if coll {
			var sids []string
			for _, id := range m.sortedIDs() {
				if s.cfg.Include == nil || s.cfg.Include.eval(id, false, m.items[id].V) {
					sids = append(sids, id)
				}
			}
			for k, id := range sids {
				lw := lastWrite[id]
				out = append(out, expEv{sev: sev{ID: id, Type: types.ChangeType_ADD, HasNew: true, New: m.items[id].project(s.cfg.RMask, !s.cfg.RMaskSet), Seed: true, LastSeed: k == len(sids)-1},
					T0: lw.t0, T1: lw.t1, Exact: lw.exact, What: "seed"})
			}
		} else if m.present {
			lw := lastWrite[""]
			out = append(out, expEv{sev: sev{Type: types.ChangeType_UPDATE, HasNew: true, New: m.val.project(s.cfg.RMask, !s.cfg.RMaskSet), Seed: true, LastSeed: true},
				T0: lw.t0, T1: lw.t1, Exact: lw.exact, What: "seed"})
		}
		return out
	}
	evFor := func(s *scriptSub, rec *opRec) (expEv, bool) {
		o, st, before := rec.o, rec.st, rec.before
		proj := func(x mm) mm { return x.project(s.cfg.RMask, !s.cfg.RMaskSet) }
		e := expEv{T0: st.t0, T1: st.t1, Exact: st.exact, What: o.String()}
		e.ID = o.ID
		old, hadOld := before.items[o.ID]
		switch {
		case !coll:
			e.Type, e.HasNew, e.New = types.ChangeType_UPDATE, true, proj(rec.res.Msg)
			if cfg.Equiv && before.present && proj(before.val) == e.New {
				e.Optional = true
			}
			e.Tol = cfg.EquivTolN
			if d := proj(before.val).N - e.New.N; before.present && proj(before.val).S == e.New.S && proj(before.val).B == e.New.B && d >= -1 && d <= 1 {
				e.OldEq = true
			}
		case o.Kind == opDelete:
			e.Type, e.HasOld, e.Old = types.ChangeType_REMOVE, true, proj(rec.res.Msg)
		case hadOld:
			e.Type, e.HasOld, e.Old, e.HasNew, e.New = types.ChangeType_UPDATE, true, proj(old), true, proj(rec.res.Msg)
			if cfg.Equiv && e.Old == e.New {
				e.Optional = true
			}
		default:
			e.Type, e.HasNew, e.New = types.ChangeType_ADD, true, proj(rec.res.Msg)
		}
		if inc := s.cfg.Include; inc != nil {
			// the filtered collection's edit: decided on the stored (unprojected) versions
			oi := hadOld && inc.eval(o.ID, false, old.V)
			ni := o.Kind != opDelete && inc.eval(o.ID, false, rec.res.Msg.V)
			switch {
			case oi && ni:
			case ni:
				e.Type, e.HasOld, e.Old, e.Optional = types.ChangeType_ADD, false, mm{}, false
			case oi:
				e.Type, e.HasOld, e.Old, e.HasNew, e.New, e.Optional = types.ChangeType_REMOVE, true, proj(old), false, mm{}, false
			default:
				return e, false
			}
		}
		return e, true
	}

	openSubs := func(task *Task, pos int) {
		for _, s := range subs {
			if s.openAt != pos || s.opened {
				continue
			}
			s := s
			s.expect = append(s.expect, seedFor(s, m, lastWrite)...)
			s.pullInvoked = w.Step()
			s.open(r)
			s.pullReturn = w.Step()
			w.Go(s.name, true, func(t *Task) {
				for {
					if s.slow {
						t.Sleep(6 * time.Second) // longer than any send bound there is: a collection's writers simply wait
					}
					t.Yield("recv")
					if !s.recv(w) {
						return
					}
				}
			})
		}
	}

	var passers []context.CancelFunc
	if t.Flag(1, 3) {
		// other subscribers come and go while the ones under observation stay: each of those still gets exactly its script
		np := 1 + t.Choose(2)
		for i := 0; i < np; i++ {
			ctx, cancel := context.WithCancel(context.Background())
			passers = append(passers, cancel)
			tmp := &subscriber{name: fmt.Sprintf("passer-by%d", i), cfg: subCfg{Backpressure: true, UpdatesOnly: t.Flag(1, 2)}, ctx: ctx, cancel: cancel}
			stay, wait := t.Choose(3), t.Choose(4)
			w.Go(tmp.name, true, func(task *Task) {
				for k := 0; k < wait; k++ {
					task.Yield("later")
				}
				tmp.open(r)
				for k := 0; k < stay; k++ {
					task.Yield("recv")
					if !tmp.recv(w) {
						return
					}
				}
				task.Yield("leave")
				cancel()
				for tmp.recv(w) {
				}
			})
		}
	}
	// a subscriber that arrives while the writer is at work: its seed reflects the first j writes for some j between the
	// writes that had returned when Pull was called and the writes that had begun when Pull returned, and the stream is
	// then exactly the script of the writes after j
	var csub *scriptSub
	csMin, csMax := 0, 0
	if t.Flag(1, 3) {
		ctx, cancel := context.WithCancel(context.Background())
		sc := subCfg{Backpressure: true, UpdatesOnly: t.Flag(1, 4)}
		if t.Flag(1, 4) {
			sc.RMaskSet, sc.RMask = true, []string{fV}
		}
		csub = &scriptSub{subscriber: &subscriber{name: "arriving", cfg: sc, ctx: ctx, cancel: cancel}}
		wait := t.Choose(2 * nops)
		w.Go(csub.name, true, func(task *Task) {
			for k := 0; k < wait; k++ {
				task.Yield("later")
			}
			csMin = completed
			csub.open(r)
			csMax = started
			for {
				task.Yield("recv")
				if !csub.recv(w) {
					return
				}
			}
		})
	}
	var stopProbe context.CancelFunc
	if cfg.Ballast {
		nested := resource.WithReadPaths(&testproto.TestAllTypes{}, "default_nested_message.a", fV)
		np := 1 + t.Choose(2*nops)
		pctx, cancel := context.WithCancel(context.Background())
		stopProbe = cancel
		w.Go("masked-reader", true, func(task *Task) {
			var events <-chan *resource.CollectionChange
			var vevents <-chan *resource.ValueChange
			if task.W.Tape.Flag(1, 2) {
				if coll {
					events = r.col.Pull(pctx, nested)
				} else {
					vevents = r.val.Pull(pctx, nested)
				}
			}
			for i := 0; i < np; i++ {
				task.Yield("masked-read")
				switch {
				case events != nil || vevents != nil:
					select {
					case <-events:
					case <-vevents:
					default:
					}
				case coll:
					r.col.List(nested)
				default:
					r.val.Get(nested)
				}
			}
			cancel()
			if events != nil {
				for range events {
				}
			}
			if vevents != nil {
				for range vevents {
				}
			}
		})
	}
	w.Go("w", false, func(task *Task) {
		for i := 0; i < nops; i++ {
			openSubs(task, i)
			task.Yield("op")
			if t.Flag(1, 10) {
				clock.Jump([]time.Duration{time.Second, -time.Second, time.Hour, -time.Hour}[t.Choose(4)])
				w.Fault("clock-jump")
			}
			var o wop
			id := ids[t.Choose(len(ids))]
			if coll {
				switch t.Choose(8) {
				case 0, 1, 2:
					o.Kind, o.ID = opAdd, id
				case 3, 4, 5:
					o.Kind, o.ID = opUpdate, id
					o.CreateIfAbs = t.Flag(1, 2)
				default:
					o.Kind, o.ID = opDelete, id
					o.AllowMiss = t.Flag(1, 3)
				}
			} else {
				o.Kind = opSet
			}
			var cur mm
			var has bool
			if coll {
				cur, has = m.items[o.ID]
			} else {
				cur, has = m.val, m.present
			}
			if o.Kind != opDelete {
				o.Val = mm{V: fresh(), N: int64(t.Choose(2))}
				if tol {
					o.Val.N = int64(t.Choose(4))
				}
				if t.Flag(1, 3) {
					o.Val.S = "t"
				}
				if t.Flag(1, 3) {
					o.HasMask, o.Mask = true, masks[t.Choose(len(masks))]
				}
				if t.Flag(1, 6) {
					o.HasDelta, o.Delta = true, int64(1+t.Choose(2))
				}
			}
			if t.Flag(1, 5) {
				o.HasExpect = true
				if has && t.Flag(1, 2) {
					o.Expect = cur
				} else {
					o.Expect = mm{V: 999}
				}
			}
			if cfg.Ballast {
				// (a whole-message expectation would have to know whether the stored item was created through a mask
				// that left the nested part out)
				o.HasExpect = false
			}
			if t.Flag(1, 6) {
				o.HasCheck = true
				o.CheckV = cur.V
				if t.Flag(1, 2) {
					o.CheckV = 998
				}
			}
			if t.Flag(1, 4) {
				o.HasWT, o.WT = true, time.Unix(int64(5000+t.Choose(100)), int64(t.Choose(1000)))
			}
			h := hop{Task: "w", Op: o, Inv: w.Step(), T0: clock.Peek()}
			started++
			h.Res = r.apply(o)
			h.Ret = w.Step()
			h.T1 = clock.Peek().Add(time.Nanosecond)
			hist = append(hist, h)
			task.Note("%s", h)
			before := m.clone()
			want := m.apply(o, "")
			if !sameRes(want, h.Res) {
				w.Violate("model-mismatch", fmt.Sprintf("%s\n  model: %s", h, want), map[string]any{"resource": resName(coll), "op": o.Kind})
				return
			}
			if h.Res.Code != codes.OK || (o.Kind == opDelete && !h.Res.HasMsg) {
				recs, snaps, stamps = append(recs, nil), append(snaps, m.clone()), append(stamps, copyStamps())
				completed++
				continue
			}
			st := stamp{t0: h.T0, t1: h.T1}
			if o.HasWT {
				st = stamp{t0: o.WT, exact: true}
			}
			lastWrite[o.ID] = st
			rec := &opRec{o: o, res: h.Res, before: before, st: st}
			recs, snaps, stamps = append(recs, rec), append(snaps, m.clone()), append(stamps, copyStamps())
			completed++
			for _, s := range subs {
				if !s.opened {
					continue
				}
				e, deliver := evFor(s, rec)
				if !deliver {
					continue
				}
				s.expect = append(s.expect, e)
			}
		}
		openSubs(task, nops)
	})
	w.Run()
	if w.Deadlocked || len(w.Unfinished(false)) > 0 {
		if !w.truncated {
			w.Violate("writer-stuck", "the writer did not finish although every consumer keeps receiving: "+strings.Join(w.Unfinished(true), ","), nil)
		}
	} else {
		for _, s := range subs {
			if s.opened {
				scriptCompare(w, coll, cfg, s)
			}
		}
		if csub != nil && csub.opened {
			var tried []string
			matched := false
			for j := csMin; j <= csMax && j < len(snaps) && !matched; j++ {
				exp := seedFor(csub, snaps[j], stamps[j])
				for _, rec := range recs[j:] {
					if rec == nil {
						continue
					}
					if e, deliver := evFor(csub, rec); deliver {
						exp = append(exp, e)
					}
				}
				csub.expect = exp
				if d := scriptDiff(csub); d == nil {
					matched = true
				} else {
					tried = append(tried, fmt.Sprintf("seed after %d writes: %s", j, d.detail))
				}
			}
			if !matched {
				w.Note("%s[%s]: %s", csub.name, csub.cfg, eventsString(csub.events))
				w.Violate("script-mismatch", fmt.Sprintf("%s [%s, equivalence=%v] subscribed while the writer was at work (%d writes had returned when Pull was called, %d had begun when it returned); its stream is not the seed after j writes followed by the script of the writes after j for any such j\n  received: %s\n  %s",
					csub.name, csub.cfg, cfg.Equiv, csMin, csMax, eventsString(csub.events), strings.Join(tried, "\n  ")), map[string]any{"resource": resName(coll), "what": "arriving"})
			}
		}
	}
	for _, s := range subs {
		s.cancel()
	}
	if csub != nil {
		csub.cancel()
	}
	for _, c := range passers {
		c()
	}
	if stopProbe != nil {
		stopProbe()
	}
	w.Run()
}

type scriptDelta struct {
	class, what, detail string
	e                   expEv
}

// scriptDiff compares what s received with what it expects; nil when they agree.
func scriptDiff(s *scriptSub) *scriptDelta {
	got := s.events
	gi := 0
	var last mm
	hasLast := false
	for _, e := range s.expect {
		if gi < len(got) && sameEvent(got[gi], e.sev) {
			g := got[gi]
			gi++
			last, hasLast = e.New, e.HasNew
			// change time
			if e.Exact {
				if !g.Time.Equal(e.T0) {
					return &scriptDelta{"change-time", "write-time", fmt.Sprintf("event %s (%s) carries change time %d, the write was made WithWriteTime(%d)", g, e.What, g.Time.UnixNano(), e.T0.UnixNano()), e}
				}
			} else if g.Time.Before(e.T0) || g.Time.After(e.T1) {
				return &scriptDelta{"change-time", "clock-window", fmt.Sprintf("event %s (%s) carries change time %d outside the clock window [%d,%d] of its write", g, e.What, g.Time.UnixNano(), e.T0.UnixNano(), e.T1.UnixNano()), e}
			}
			continue
		}
		if e.Optional {
			continue
		}
		if d := last.N - e.New.N; e.Tol && hasLast && last.S == e.New.S && last.B == e.New.B && d >= -1 && d <= 1 {
			continue // within the tolerance of what it was sent last (V does not count)
		}
		if e.Tol && !hasLast && e.OldEq {
			continue // it has not been sent anything yet (updates only), and the write made no difference
		}
		if e.Tol && gi >= len(got) {
			return &scriptDelta{"script-mismatch", "missing", fmt.Sprintf("event %s (%s) was never received although it is not equivalent to %s, the last value the subscriber was sent (has one: %v)", e.sev, e.What, last, hasLast), e}
		}
		if gi >= len(got) {
			return &scriptDelta{"script-mismatch", "missing", fmt.Sprintf("event %s (%s) was never received", e.sev, e.What), e}
		}
		note := ""
		if got[gi].NonFlat {
			note = fmt.Sprintf(" whose message carries something other than what was written (raw: old %v new %v)", got[gi].RawOld, got[gi].RawNew)
		}
		return &scriptDelta{"script-mismatch", "different", fmt.Sprintf("expected %s (%s) but received %s%s", e.sev, e.What, got[gi], note), e}
	}
	if gi < len(got) {
		return &scriptDelta{"script-mismatch", "extra", fmt.Sprintf("unexpected extra event %s", got[gi]), expEv{sev: got[gi]}}
	}
	return nil
}

func scriptCompare(w *World, coll bool, cfg resCfg, s *scriptSub) {
	got := s.events
	w.Note("%s[%s] opened after %d writes: %s", s.name, s.cfg, s.openAt, eventsString(got))
	d := scriptDiff(s)
	if d == nil {
		return
	}
	var exp []string
	for _, x := range s.expect {
		o := ""
		if x.Optional {
			o = "?"
		}
		exp = append(exp, x.sev.String()+o)
	}
	w.Violate(d.class, fmt.Sprintf("%s [%s, equivalence=%v] opened after %d writes: %s\n  expected: %s\n  received: %s", s.name, s.cfg, cfg.Equiv, s.openAt, d.detail, strings.Join(exp, " "), eventsString(got)),
		map[string]any{"resource": resName(coll), "what": d.what, "event": d.e.Type.String(), "seed": d.e.Seed})
}

func sameEvent(g, e sev) bool {
	return g.ID == e.ID && g.Type == e.Type && g.HasOld == e.HasOld && g.HasNew == e.HasNew && (!g.HasOld || g.Old == e.Old) && (!g.HasNew || g.New == e.New) &&
		g.Seed == e.Seed && g.LastSeed == e.LastSeed && !g.NonFlat
}
