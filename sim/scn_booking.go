package verifsim

import (
	"context"
	"fmt"
	"sort"
	"strings"
	"sync"

	"google.golang.org/grpc"
	"google.golang.org/grpc/metadata"
	"google.golang.org/protobuf/types/known/fieldmaskpb"
	"google.golang.org/protobuf/types/known/timestamppb"

	"github.com/smart-core-os/sc-api/go/traits"
	"github.com/smart-core-os/sc-api/go/types"
	timepb "github.com/smart-core-os/sc-api/go/types/time"
	"github.com/smart-core-os/sc-golang/pkg/trait/bookingpb"
)

// C08, BookingApi variant: ListBookings / PullBookings with booking_intersects go through the same include machinery.

func init() {
	register(&Scenario{Name: "incl-booking", Prop: "C08", Doc: "bookingpb.ModelServer: a writer task creates and moves bookings over a small alphabet of non-touching periods; 1-2 PullBookings streams with booking_intersects (optionally updates-only) served by the real server method; after every phase fold(stream) == ListBookings(booking_intersects) == an independent interval-overlap filter",
		Run:  inclBookingRun,
		Real: []string{"pkg/trait/bookingpb ModelServer/Model", "pkg/resource Collection include filter", "pkg/time PeriodsIntersect"}, Stub: []string{"writer task", "caller-side server stream"}})
}

type bookingStream struct {
	ctx  context.Context
	mu   sync.Mutex
	sent []*traits.PullBookingsResponse_Change
}

func (s *bookingStream) Send(r *traits.PullBookingsResponse) error {
	s.mu.Lock()
	defer s.mu.Unlock()
	s.sent = append(s.sent, r.Changes...)
	return nil
}
func (s *bookingStream) SetHeader(metadata.MD) error  { return nil }
func (s *bookingStream) SendHeader(metadata.MD) error { return nil }
func (s *bookingStream) SetTrailer(metadata.MD)       {}
func (s *bookingStream) Context() context.Context     { return s.ctx }
func (s *bookingStream) SendMsg(any) error            { return nil }
func (s *bookingStream) RecvMsg(any) error            { return nil }

var _ grpc.ServerStream = (*bookingStream)(nil)

// periods over integer seconds; -1 = unbounded. Endpoints are all distinct so that "touching" never arises.
// {-2, -2} = a booking without a booked period at all: it intersects nothing, not even the window without bounds
var bookingPeriods = [][2]int64{{100, 200}, {300, 400}, {150, 350}, {-1, 120}, {380, -1}, {500, 600}, {-2, -2}}
var bookingWindows = [][2]int64{{110, 190}, {210, 290}, {90, 410}, {-1, 130}, {390, -1}, {450, 700}, {-1, -1}}

func mkPeriod(p [2]int64) *timepb.Period {
	if p[0] == -2 {
		return nil
	}
	out := &timepb.Period{}
	if p[0] >= 0 {
		out.StartTime = &timestamppb.Timestamp{Seconds: p[0]}
	}
	if p[1] >= 0 {
		out.EndTime = &timestamppb.Timestamp{Seconds: p[1]}
	}
	return out
}

func overlaps(a, b [2]int64) bool {
	if a[0] == -2 || b[0] == -2 {
		return false
	}
	lo := func(x int64) int64 {
		if x < 0 {
			return -1 << 60
		}
		return x
	}
	hi := func(x int64) int64 {
		if x < 0 {
			return 1 << 60
		}
		return x
	}
	return lo(a[0]) < hi(b[1]) && lo(b[0]) < hi(a[1])
}

func inclBookingRun(w *World) {
	t := w.Tape
	model := bookingpb.NewModel()
	srv := bookingpb.NewModelServer(model)
	ctx, cancel := context.WithCancel(context.Background())
	defer cancel()
	type sub struct {
		win         [2]int64
		updatesOnly bool
		st          *bookingStream
		initial     map[string]bool
	}
	var subs []*sub
	cur := map[string][2]int64{} // id -> period (reference state)
	var ids []string
	openSub := func() {
		s := &sub{win: bookingWindows[t.Choose(len(bookingWindows))], updatesOnly: t.Flag(1, 3), st: &bookingStream{ctx: ctx}, initial: map[string]bool{}}
		for id, p := range cur {
			if overlaps(p, s.win) {
				s.initial[id] = true
			}
		}
		subs = append(subs, s)
		req := &traits.ListBookingsRequest{Name: "room", BookingIntersects: mkPeriod(s.win), UpdatesOnly: s.updatesOnly}
		go func() { _ = srv.PullBookings(req, s.st) }()
	}
	nphases := 1 + t.Choose(4)
	ok := true
	for ph := 0; ph < nphases && ok; ph++ {
		if len(subs) < 2 && t.Flag(1, 2) {
			openSub()
			w.Run() // let the stream start up completely (library goroutines may be scheduled lazily) before the next write
		}
		type op struct {
			create bool
			id     string
			p      [2]int64
		}
		var ops []op
		for k := 1 + t.Choose(3); k > 0; k-- {
			p := bookingPeriods[t.Choose(len(bookingPeriods))]
			if len(ids) == 0 || t.Flag(1, 3) {
				ops = append(ops, op{create: true, p: p})
			} else {
				ops = append(ops, op{id: ids[t.Choose(len(ids))], p: p})
			}
		}
		w.Go(fmt.Sprintf("w%d", ph), false, func(task *Task) {
			for _, o := range ops {
				task.Yield("op")
				if o.create {
					r, err := srv.CreateBooking(ctx, &traits.CreateBookingRequest{Booking: &traits.Booking{Booked: mkPeriod(o.p)}})
					if err != nil {
						w.Violate("booking-rpc", fmt.Sprintf("CreateBooking failed: %v", err), nil)
						ok = false
						return
					}
					ids = append(ids, r.BookingId)
					cur[r.BookingId] = o.p
					task.Note("create %s %v", r.BookingId, o.p)
				} else {
					mask := []string{"booked.start_time", "booked.end_time"}
					if o.p[0] == -2 {
						mask = []string{"booked"} // clears the period
					}
					_, err := srv.UpdateBooking(ctx, &traits.UpdateBookingRequest{Booking: &traits.Booking{Id: o.id, Booked: mkPeriod(o.p)}, UpdateMask: &fieldmaskpb.FieldMask{Paths: mask}})
					if err != nil {
						w.Violate("booking-rpc", fmt.Sprintf("UpdateBooking failed: %v", err), nil)
						ok = false
						return
					}
					cur[o.id] = o.p
					task.Note("update %s %v", o.id, o.p)
				}
			}
		})
		w.Run()
		if !ok || w.truncated {
			break
		}
		for si, s := range subs {
			want := []string{}
			for id, p := range cur {
				if overlaps(p, s.win) {
					want = append(want, id)
				}
			}
			sort.Strings(want)
			lr, err := srv.ListBookings(ctx, &traits.ListBookingsRequest{Name: "room", BookingIntersects: mkPeriod(s.win)})
			got := []string{}
			if err == nil {
				for _, b := range lr.Bookings {
					got = append(got, b.Id)
				}
			}
			sort.Strings(got)
			if strings.Join(got, ",") != strings.Join(want, ",") {
				w.Violate("list-include", fmt.Sprintf("ListBookings(intersects %v) returns %v, bookings overlapping that window are %v (all %v)", s.win, got, want, cur), nil)
				ok = false
			}
			view := map[string]bool{}
			if s.updatesOnly {
				for id := range s.initial {
					view[id] = true
				}
			}
			s.st.mu.Lock()
			evs := append([]*traits.PullBookingsResponse_Change(nil), s.st.sent...)
			s.st.mu.Unlock()
			var desc []string
			for _, c := range evs {
				switch c.Type {
				case types.ChangeType_REMOVE:
					delete(view, c.OldValue.GetId())
					desc = append(desc, "REMOVE("+c.OldValue.GetId()+")")
				default:
					view[c.NewValue.GetId()] = true
					desc = append(desc, c.Type.String()+"("+c.NewValue.GetId()+")")
				}
			}
			var vs []string
			for id := range view {
				vs = append(vs, id)
			}
			sort.Strings(vs)
			if strings.Join(vs, ",") != strings.Join(want, ",") {
				w.Violate("fold-mismatch", fmt.Sprintf("PullBookings stream %d (intersects %v, updatesOnly=%v) folds to %v, ListBookings with the same filter gives %v (all %v); events %v", si, s.win, s.updatesOnly, vs, want, cur, desc),
					map[string]any{"mode": "booking"})
				ok = false
			}
		}
	}
	w.MarkNontrivial()
	cancel()
	w.Run()
}
