package verifsim

import (
	"context"
	"fmt"
	"google.golang.org/protobuf/proto"
	"math/rand"
	"sort"
	"strings"
	"time"

	"google.golang.org/grpc/codes"
	"google.golang.org/protobuf/types/known/fieldmaskpb"

	"github.com/smart-core-os/sc-api/go/traits"
	"github.com/smart-core-os/sc-api/go/types"
	"github.com/smart-core-os/sc-golang/pkg/resource"
	"github.com/smart-core-os/sc-golang/pkg/time/clock"
	"github.com/smart-core-os/sc-golang/pkg/trait/electricpb"
)

// C19 — the electric model keeps its documented mode invariants (DESIGN.md §5 C19).

func init() {
	register(&Scenario{Name: "elec", Prop: "C19", Doc: "phase 1: one task issues create/add/update/delete/set-active/change-active/clear-active on up to 4 modes through Model or through the ElectricApi/MemorySettingsApi server, invariants and per-operation postconditions after every call; phase 2: 2-4 such tasks concurrently (parking inside the underlying Value/Collection operations while holding the model mutex), invariants at quiescence; PullModes/PullActiveMode streams fold to Modes()/ActiveMode()",
		Run:  elecRun,
		Real: []string{"pkg/trait/electricpb Model, ModelServer (ElectricApi, MemorySettingsApi)", "pkg/resource", "internal/minibus"}, Stub: []string{"caller tasks", "injected clock.Clock", "seeded rand"}})
	// the same workload judged for C02: operations that span the model's two resources (find the normal mode in one,
	// make it active in the other) are one atomic step for every concurrent caller
	register(&Scenario{Name: "lin-elec", Prop: "C02", Doc: "the electric model's workload (2-4 callers issuing create/add/update/delete/change-active/clear-active at the same time, parked inside the underlying Value/Collection operations) judged for atomicity across the model's two resources: whatever the others do, a clear-active selects and returns a mode that is marked normal, and a delete with allow-missing succeeds; and what no one-at-a-time order of the calls can produce - an active mode that was deleted, two normal modes - does not come out of concurrent calls either",
		Run:  elecRun,
		Real: []string{"pkg/trait/electricpb Model, ModelServer", "pkg/resource"}, Stub: []string{"caller tasks", "injected clock.Clock", "seeded rand"}})
}

// modelClock implements clock.Clock on top of the simulated clock.
type modelClock struct{ simClock }

func (c *modelClock) At(t time.Time) <-chan time.Time        { return c.After(t.Sub(c.Peek())) }
func (c *modelClock) After(d time.Duration) <-chan time.Time { return time.After(d) }
func (c *modelClock) Every(d time.Duration) clock.Ticker     { panic("not used") }

type elecOp struct {
	Kind      string // create add update delete set change clear
	ID        string
	Normal    bool
	HasMask   bool
	Mask      []string
	AllowMiss bool
	ViaServer bool
	Title     string
	Pre       int // delete through the model: 0 no precondition of the caller's, 1 / 2 a passing WithExpectedCheck after / before the other options
}

func (o elecOp) String() string {
	s := o.Kind
	if o.ID != "" {
		s += "(" + o.ID + ")"
	}
	if o.Kind == "create" || o.Kind == "add" || o.Kind == "update" {
		s += fmt.Sprintf(" normal=%v", o.Normal)
	}
	if o.HasMask {
		s += fmt.Sprintf(" mask%v", o.Mask)
	}
	if o.AllowMiss {
		s += " allowMissing"
	}
	if o.ViaServer {
		s += " via-server"
	}
	return s
}

type elecRes struct {
	Code codes.Code
	Mode *traits.ElectricMode
	T0   time.Time
	T1   time.Time
}

type elecWorld struct {
	w       *World
	m       *electricpb.Model
	srv     *electricpb.ModelServer
	clk     *modelClock
	nextT   int
	active  bool // the active mode was changed at least once (successfully)
	usedSet bool // SetActiveMode (documented not to stamp a start time) was used in this run
	// the latest start time any change-active / clear-active has returned, and the mode it was on (tasks run one at a time)
	maxStamp   time.Time
	maxStampID string
}

func (e *elecWorld) apply(o elecOp) elecRes {
	ctx := context.Background()
	r := elecRes{T0: e.clk.Peek()}
	var err error
	switch o.Kind {
	case "create":
		mode := &traits.ElectricMode{Title: o.Title, Normal: o.Normal}
		if o.ViaServer {
			r.Mode, err = e.srv.CreateMode(ctx, &electricpb.CreateModeRequest{Mode: mode})
		} else {
			r.Mode, err = e.m.CreateMode(mode)
		}
	case "add":
		err = e.m.AddMode(&traits.ElectricMode{Id: o.ID, Title: o.Title, Normal: o.Normal})
	case "update":
		mode := &traits.ElectricMode{Id: o.ID, Title: o.Title, Normal: o.Normal}
		var mask *fieldmaskpb.FieldMask
		if o.HasMask {
			mask = &fieldmaskpb.FieldMask{Paths: o.Mask}
		}
		if o.ViaServer {
			r.Mode, err = e.srv.UpdateMode(ctx, &electricpb.UpdateModeRequest{Mode: mode, UpdateMask: mask})
		} else {
			r.Mode, err = e.m.UpdateMode(mode, resource.WithUpdateMask(mask))
		}
	case "upsert":
		// an update that may create the mode: whatever the model makes of it, its invariants are the same
		mode := &traits.ElectricMode{Id: o.ID, Title: o.Title, Normal: o.Normal}
		uopts := []resource.WriteOption{resource.WithCreateIfAbsent()}
		if o.HasMask {
			uopts = append(uopts, resource.WithUpdateMask(&fieldmaskpb.FieldMask{Paths: o.Mask}))
		}
		r.Mode, err = e.m.UpdateMode(mode, uopts...)
	case "delete":
		if o.ViaServer {
			_, err = e.srv.DeleteMode(ctx, &electricpb.DeleteModeRequest{Id: o.ID, AllowMissing: o.AllowMiss})
		} else {
			dopts := []resource.WriteOption{resource.WithAllowMissing(o.AllowMiss)}
			// a caller's own (passing) preconditions must not weaken the model's rules
			switch o.Pre {
			case 1:
				dopts = append(dopts, resource.WithExpectedCheck(func(proto.Message) error { return nil }))
			case 2:
				dopts = append([]resource.WriteOption{resource.WithExpectedCheck(func(proto.Message) error { return nil })}, dopts...)
			}
			err = e.m.DeleteMode(o.ID, dopts...)
		}
	case "set":
		e.usedSet = true
		err = e.m.SetActiveMode(&traits.ElectricMode{Id: o.ID, Title: "set"})
	case "change":
		if o.ViaServer {
			// (a request may carry more than the id, and a mask: the mode is selected by id all the same)
			req := &traits.UpdateActiveModeRequest{ActiveMode: &traits.ElectricMode{Id: o.ID}}
			if o.HasMask {
				req.ActiveMode.Title, req.ActiveMode.Voltage = "req", 230
				req.UpdateMask = &fieldmaskpb.FieldMask{Paths: o.Mask}
			}
			r.Mode, err = e.srv.UpdateActiveMode(ctx, req)
			if o.HasMask && err == nil {
				e.w.Fault("change-with-mask")
			}
		} else {
			r.Mode, err = e.m.ChangeActiveMode(o.ID)
		}
	case "clear":
		if o.ViaServer {
			r.Mode, err = e.srv.ClearActiveMode(ctx, &traits.ClearActiveModeRequest{})
		} else {
			r.Mode, err = e.m.ChangeToNormalMode()
		}
	}
	r.Code = errCode(err)
	if st := r.Mode.GetStartTime(); err == nil && (o.Kind == "change" || o.Kind == "clear") && st != nil && st.AsTime().After(e.maxStamp) {
		e.maxStamp, e.maxStampID = st.AsTime(), r.Mode.GetId()
	}
	r.T1 = e.clk.Peek().Add(time.Nanosecond)
	return r
}

type elecSnap struct {
	ids     []string
	normals []string
	active  string
}

func (e *elecWorld) snap() elecSnap {
	var s elecSnap
	for _, m := range e.m.Modes() {
		s.ids = append(s.ids, m.Id)
		if m.Normal {
			s.normals = append(s.normals, m.Id)
		}
	}
	s.active = e.m.ActiveMode().GetId()
	return s
}

func (s elecSnap) has(id string) bool { return contains(s.ids, id) }

func (s elecSnap) String() string {
	return fmt.Sprintf("modes=%v normal=%v active=%q", s.ids, s.normals, s.active)
}

// invariants checks the documented invariants on a snapshot.
func (e *elecWorld) invariants(s elecSnap, when string) bool {
	ok := true
	if len(s.normals) > 1 {
		e.w.Violate("two-normal-modes", fmt.Sprintf("%s: more than one mode is marked normal: %s", when, s), nil)
		ok = false
	}
	if e.active && !s.has(s.active) {
		e.w.Violate("active-mode-missing", fmt.Sprintf("%s: the active mode %q does not exist: %s", when, s.active, s), nil)
		ok = false
	}
	return ok
}

func elecGenOp(t *Tape, ids []string, n *int) elecOp {
	*n++
	o := elecOp{Title: fmt.Sprintf("t%d", *n), ViaServer: t.Flag(1, 2)}
	id := ids[t.Choose(len(ids))]
	switch t.Choose(12) {
	case 11:
		// (without an update mask: a mode created through a mask that leaves its id out is stored without one, which
		// is its own can of worms and none of this property's business)
		o.Kind, o.ID, o.Normal, o.ViaServer = "upsert", id, t.Flag(1, 2), false
	case 0, 1:
		o.Kind, o.Normal = "create", t.Flag(1, 2)
	case 2:
		o.Kind, o.ID, o.Normal, o.ViaServer = "add", id, t.Flag(1, 2), false
	case 3, 4:
		o.Kind, o.ID, o.Normal = "update", id, t.Flag(1, 2)
		switch t.Choose(5) {
		case 1:
			o.HasMask, o.Mask = true, []string{"normal"}
		case 2:
			o.HasMask, o.Mask = true, []string{"title"}
		case 3:
			o.HasMask, o.Mask = true, []string{} // present but empty
		case 4:
			o.HasMask, o.Mask = true, []string{"title", "normal"}
		}
	case 5, 6:
		o.Kind, o.ID, o.AllowMiss, o.Pre = "delete", id, t.Flag(1, 2), t.Choose(3)
	case 7:
		o.Kind, o.ID, o.ViaServer = "set", id, false
	case 8, 9:
		o.Kind, o.ID = "change", id
		if o.ViaServer {
			switch t.Choose(6) {
			case 1:
				o.HasMask, o.Mask = true, []string{"id"}
			case 2:
				o.HasMask, o.Mask = true, []string{"voltage"}
			case 3:
				o.HasMask, o.Mask = true, []string{"id", "title"}
			}
		}
	default:
		o.Kind = "clear"
	}
	return o
}

func elecRun(w *World) {
	t := w.Tape
	clk := &modelClock{}
	opts := []resource.Option{electricpb.WithClock(clk), electricpb.WithRNG(rand.New(rand.NewSource(int64(1 + t.Choose(1000)))))}
	ids := []string{"m1", "m2", "m3", "m4"}
	nInit := t.Choose(3)
	for i := 0; i < nInit; i++ {
		opts = append(opts, electricpb.WithInitialMode(&traits.ElectricMode{Id: ids[i], Title: "init", Normal: i == 0 && t.Flag(1, 2)}))
	}
	if t.Flag(1, 4) {
		// (the resources may be given a clock of their own - for their change times - after the model's: start times are
		// still the model clock's)
		other := &modelClock{}
		other.Jump(-87600 * time.Hour)
		if t.Flag(1, 2) {
			opts = append(opts, electricpb.WithActiveModeOption(resource.WithClock(other)))
		} else {
			opts = append(opts, resource.WithClock(other))
		}
		w.Fault("resource-clock")
	}
	e := &elecWorld{w: w, clk: clk}
	e.m = electricpb.NewModel(opts...)
	e.srv = electricpb.NewModelServer(e.m)
	w.SetMaxSteps(1500)

	// streams, opened before anything happens; their consumers keep receiving
	ctx, cancel := context.WithCancel(context.Background())
	var modeEvents []electricpb.PullModesChange
	var activeEvents []electricpb.PullActiveModeChange
	bp := t.Flag(1, 2)
	modesCh := e.m.PullModes(ctx, resource.WithBackpressure(bp))
	activeCh := e.m.PullActiveMode(ctx, resource.WithBackpressure(bp))
	w.Go("pm", true, func(t *Task) {
		for {
			t.Yield("recv")
			c, ok := <-modesCh
			if !ok {
				return
			}
			modeEvents = append(modeEvents, c)
		}
	})
	w.Go("pa", true, func(t *Task) {
		for {
			t.Yield("recv")
			c, ok := <-activeCh
			if !ok {
				return
			}
			// (a copy, taken when the event is received: what the stream said then is what counts)
			c.ActiveMode = proto.Clone(c.ActiveMode).(*traits.ElectricMode)
			activeEvents = append(activeEvents, c)
		}
	})

	created := []string{}
	nop := 0
	failed := false
	// phase 1: one caller, postconditions after every call
	n1 := t.Choose(9)
	w.Go("t0", false, func(task *Task) {
		task.NoPark(t.Flag(1, 2))
		for i := 0; i < n1 && !failed; i++ {
			pool := ids
			if len(created) > 0 && t.Flag(1, 3) {
				pool = created
			}
			o := elecGenOp(t, pool, &nop)
			task.Yield("op")
			before := e.snap()
			r := e.apply(o)
			after := e.snap()
			task.Note("%s -> %s %v   [%s]", o, r.Code, r.Mode, after)
			if r.Code == codes.OK && r.Mode != nil && o.Kind == "create" {
				created = append(created, r.Mode.Id)
			}
			if r.Code == codes.OK && (o.Kind == "set" || o.Kind == "change" || o.Kind == "clear") {
				e.active = true
			}
			bad := func(class, msg string) {
				failed = true
				w.Violate(class, fmt.Sprintf("%s -> %s %v\n  before: %s\n  after:  %s\n  %s", o, r.Code, r.Mode, before, after, msg), map[string]any{"op": o.Kind, "via_server": o.ViaServer})
			}
			if !e.invariants(after, "after "+o.String()) {
				failed = true
				return
			}
			switch o.Kind {
			case "delete":
				switch {
				case !before.has(o.ID):
					if o.AllowMiss && r.Code != codes.OK {
						bad("delete-absent", "deleting an absent mode with allow-missing must succeed")
					}
					if !o.AllowMiss && r.Code != codes.NotFound {
						bad("delete-absent", "deleting an absent mode must report NotFound")
					}
				case before.active == o.ID:
					if r.Code == codes.OK || !after.has(o.ID) {
						bad("active-mode-deleted", "the active mode was deleted")
					}
				default:
					if r.Code != codes.OK || after.has(o.ID) {
						bad("delete-failed", "deleting an existing, inactive mode must succeed and remove it")
					}
				}
			case "clear":
				if len(before.normals) == 1 {
					if r.Code != codes.OK || r.Mode.GetId() != before.normals[0] || after.active != before.normals[0] {
						bad("clear-active", "clearing the active mode must select the normal mode "+before.normals[0])
					}
				} else if len(before.normals) == 0 && r.Code != codes.NotFound {
					bad("clear-active", "there is no normal mode: expected NotFound")
				}
			case "change":
				if before.has(o.ID) {
					if r.Code != codes.OK || after.active != o.ID {
						bad("change-active", "changing to an existing mode must succeed and make it active")
					}
				} else if r.Code != codes.NotFound {
					bad("change-active", "changing to an absent mode must report NotFound")
				}
			case "create":
				if r.Code == codes.OK && (r.Mode.GetId() == "" || before.has(r.Mode.GetId()) || !after.has(r.Mode.GetId())) {
					bad("create", "a created mode needs a fresh non-empty id and must be listed afterwards")
				}
			}
			// start time stamping when switching to a different mode
			if !failed && (o.Kind == "change" || o.Kind == "clear") && r.Code == codes.OK && r.Mode.GetId() != before.active {
				st := r.Mode.GetStartTime()
				if st == nil || st.AsTime().Before(r.T0) || st.AsTime().After(r.T1) {
					bad("start-time", fmt.Sprintf("switched from %q to %q: start time %v is not a reading of the model clock taken during the call [%v, %v]", before.active, r.Mode.GetId(), st.AsTime().UnixNano(), r.T0.UnixNano(), r.T1.UnixNano()))
				}
				if am := e.m.ActiveMode(); am.GetStartTime() == nil || !am.GetStartTime().AsTime().Equal(st.AsTime()) {
					bad("start-time", "ActiveMode() does not carry the stamped start time")
				}
			}
		}
	})
	w.Run()
	// phase 2: concurrent callers
	nt := 0
	if !failed && !w.truncated && !w.Deadlocked && t.Flag(3, 4) {
		nt = 2 + t.Choose(3)
		storm := t.Flag(1, 3)
		for i := 0; i < nt; i++ {
			k := 1 + t.Choose(3)
			var ops []elecOp
			for j := 0; j < k; j++ {
				pool := ids
				if len(created) > 0 && t.Flag(1, 3) {
					pool = created
				}
				o := elecGenOp(t, pool, &nop)
				if storm && t.Flag(2, 3) {
					// (switching back and forth: requests that select a mode, with and without masks, and clears)
					o = elecOp{Title: o.Title, Kind: "change", ID: pool[t.Choose(len(pool))], ViaServer: t.Flag(2, 3)}
					switch t.Choose(4) {
					case 0:
						o.Kind, o.ID = "clear", ""
					case 1:
						if o.ViaServer {
							o.HasMask, o.Mask = true, [][]string{{"voltage"}, {"id", "title"}, {"title", "voltage"}}[t.Choose(3)]
						}
					}
				}
				ops = append(ops, o)
			}
			w.Go(fmt.Sprintf("c%d", i), false, func(task *Task) {
				for _, o := range ops {
					task.Yield("op")
					r := e.apply(o)
					if r.Code == codes.OK && (o.Kind == "set" || o.Kind == "change" || o.Kind == "clear") {
						e.active = true
					}
					if r.Code == codes.NotFound && o.Kind == "delete" && o.AllowMiss {
						// whoever else deletes the same mode at the same moment: with allow-missing an absent mode is a success
						w.Violate("delete-absent", fmt.Sprintf("%s, concurrently with other callers, reported NotFound although allow-missing was set", o), map[string]any{"phase": "concurrent"})
					}
					if r.Code == codes.OK && o.Kind == "clear" && r.Mode != nil && !r.Mode.Normal {
						// whatever the other callers were doing: the mode that a clear selects (and returns) is the normal one
						// at that instant - a mode that is not marked normal cannot come out of any order of the calls
						w.Violate("clear-active", fmt.Sprintf("%s, concurrently with other callers, selected and returned %v, which is not marked normal", o, r.Mode), map[string]any{"phase": "concurrent"})
					}
					task.Note("%s -> %s %v", o, r.Code, r.Mode)
				}
			})
		}
		w.Run()
	}
	if w.Deadlocked {
		w.Violate("deadlock", "tasks blocked forever: "+strings.Join(w.Unfinished(true), ","), nil)
	} else if u := w.Unfinished(false); len(u) > 0 && !w.truncated {
		w.Violate("caller-stuck", "callers did not finish: "+strings.Join(u, ","), nil)
	} else if !failed && !w.truncated {
		w.Go("oracle", false, func(task *Task) {
			s := e.snap()
			task.Note("final %s", s)
			if !e.invariants(s, "at quiescence after concurrent callers") {
				return
			}
			// The model clock is strictly increasing and switches are stamped one at a time, each with the clock's time at
			// that switch: the mode that is active in the end was switched to last, so no call can have been given a later
			// stamp than the one it carries (SetActiveMode does not stamp: runs that used it are not judged).
			if am := e.m.ActiveMode(); !e.usedSet && am.GetStartTime() != nil && e.maxStamp.After(am.GetStartTime().AsTime()) && e.maxStampID != am.GetId() {
				w.Violate("start-time", fmt.Sprintf("at rest the active mode is %q with start time %d, but the switch to %q was stamped %d: the last switch was to %q, and its start time is not the model clock's time at that switch", am.GetId(), am.GetStartTime().AsTime().UnixNano(), e.maxStampID, e.maxStamp.UnixNano(), am.GetId()), map[string]any{"observer": "final"})
			}
			// streams
			view := map[string]*traits.ElectricMode{}
			for _, c := range modeEvents {
				switch c.Type {
				case types.ChangeType_REMOVE:
					if c.OldValue != nil {
						delete(view, c.OldValue.Id)
					}
				default:
					if c.NewValue != nil {
						view[c.NewValue.Id] = c.NewValue
					}
				}
			}
			var vids []string
			for id := range view {
				vids = append(vids, id)
			}
			sort.Strings(vids)
			if strings.Join(vids, ",") != strings.Join(s.ids, ",") {
				w.Violate("stream-diverged", fmt.Sprintf("PullModes folds to %v, Modes() lists %v", vids, s.ids), map[string]any{"stream": "modes"})
			}
			for _, m := range e.m.Modes() {
				if v := view[m.Id]; v != nil && (v.Normal != m.Normal || v.Title != m.Title) {
					w.Violate("stream-diverged", fmt.Sprintf("PullModes folds %q to %v, Modes() has %v", m.Id, v, m), map[string]any{"stream": "modes"})
				}
			}
			// (only an exact stream: a lossy one may skip the stamped event and deliver a later, legitimately unstamped,
			// re-selection of the same mode; for the same reason somebody polling ActiveMode() proves nothing)
			// (the model clock is strictly increasing and switches are stamped one at a time: along an exact stream the
			// stamps of the switches increase)
			var stamped time.Time
			if !e.usedSet && bp && len(activeEvents) > 2 {
				w.Fault("stamp-order-judged")
			}
			for i := 0; i < len(activeEvents) && !e.usedSet && bp; i++ {
				c := activeEvents[i].ActiveMode
				if i > 0 {
					p := activeEvents[i-1].ActiveMode
					if c.GetId() != p.GetId() && c.GetId() != "" && c.GetStartTime() == nil {
						w.Violate("start-time", fmt.Sprintf("PullActiveMode reported the switch from %q to %q without a start time", p.GetId(), c.GetId()), map[string]any{"observer": "stream"})
						break
					}
					if c.GetId() != p.GetId() && c.GetId() != "" && !c.GetStartTime().AsTime().After(stamped) {
						w.Violate("start-time", fmt.Sprintf("PullActiveMode reported the switch from %q to %q with start time %d, which is not the model clock's time at that switch: an earlier event was already stamped %d", p.GetId(), c.GetId(), c.GetStartTime().AsTime().UnixNano(), stamped.UnixNano()), map[string]any{"observer": "stream-order"})
						break
					}
				}
				if st := c.GetStartTime(); st != nil && st.AsTime().After(stamped) {
					stamped = st.AsTime()
				}
			}
			if len(activeEvents) > 0 {
				last := activeEvents[len(activeEvents)-1].ActiveMode
				if last.GetId() != s.active {
					w.Violate("stream-diverged", fmt.Sprintf("PullActiveMode last delivered %q, ActiveMode() is %q", last.GetId(), s.active), map[string]any{"stream": "active"})
				}
			}
		})
		w.Run()
	}
	cancel()
	w.Run()
}
