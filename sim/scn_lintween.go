package verifsim

import (
	"context"
	"fmt"
	"strings"
	"time"

	"google.golang.org/protobuf/proto"
	"google.golang.org/protobuf/types/known/durationpb"

	"github.com/smart-core-os/sc-api/go/traits"
	"github.com/smart-core-os/sc-api/go/types"
	"github.com/smart-core-os/sc-golang/pkg/trait/lightpb"
)

// C02 on a trait whose writes have a life of their own: a tweened brightness update commits its first step and hands the
// rest to a goroutine that keeps writing with an expected-value precondition, so that any later write ends the fade.
// A later acknowledged write must therefore never be overwritten by an earlier fade - whenever the fade's goroutine
// gets to run.

func init() {
	register(&Scenario{Name: "lin-tween", Prop: "C02", Doc: "lightpb memory device: 1-2 clients issue 1-3 UpdateBrightness calls each (absolute, delta, or faded over 0.3-1 s of fake time); the fade goroutines are scheduled by the simulator (lazily started, preempted between ticks); after the fades have run out the stored brightness is what the last call of some client left: its response for a plain write, its target for a fade - an acknowledged later write is never overwritten by an earlier fade",
		Run:  linTweenRun,
		Real: []string{"pkg/trait/lightpb MemoryDevice (tween goroutine, expected-value chain)", "pkg/resource Value"}, Stub: []string{"client tasks", "fake clock"}})
}

func init() {
	register(&Scenario{Name: "alias-tween", Prop: "C07", Doc: "the lin-tween workload judged for isolation: the callers change (reuse) their request messages once their calls have returned, while the fades those calls started are still running; the stored fade progress never gets ahead of what the requests as sent allow",
		Run:  linTweenRun,
		Real: []string{"pkg/trait/lightpb MemoryDevice (tween goroutine)", "pkg/resource Value"}, Stub: []string{"client tasks", "fake clock"}})
}

func linTweenRun(w *World) {
	t := w.Tape
	dev := lightpb.NewMemoryDevice()
	w.MarkNontrivial()
	type call struct {
		req   *traits.UpdateBrightnessRequest
		resp  *traits.Brightness
		err   error
		after time.Duration
		start time.Time
	}
	reuse := t.Flag(1, 2)
	nc := 1 + t.Choose(2)
	clients := make([][]*call, nc)
	for i := 0; i < nc; i++ {
		k := 1 + t.Choose(3)
		for j := 0; j < k; j++ {
			b := &traits.Brightness{LevelPercent: float32(10 * (1 + t.Choose(9)))}
			req := &traits.UpdateBrightnessRequest{Name: "l", Brightness: b, Delta: t.Flag(1, 3)}
			if req.Delta && t.Flag(1, 2) {
				b.LevelPercent = -b.LevelPercent
			}
			if t.Flag(1, 2) {
				b.BrightnessTween = &types.Tween{TotalDuration: durationpb.New([]time.Duration{300 * time.Millisecond, 500 * time.Millisecond, time.Second}[t.Choose(3)])}
			}
			c := &call{req: req}
			if t.Flag(1, 3) {
				// the call is made a little later: while an earlier fade is ticking
				c.after = time.Duration(1+t.Choose(12)) * 50 * time.Millisecond
			}
			clients[i] = append(clients[i], c)
		}
		mine := clients[i]
		w.Go(fmt.Sprintf("c%d", i), false, func(task *Task) {
			for _, c := range mine {
				if c.after > 0 {
					task.Sleep(c.after)
				}
				task.Yield("op")
				sent := proto.Clone(c.req).(*traits.UpdateBrightnessRequest)
				c.start = time.Now()
				c.resp, c.err = dev.UpdateBrightness(context.Background(), sent)
				task.Note("%v -> %v %v", c.req, c.resp, c.err)
				if reuse {
					// the request is the caller's again (say it is reused for the next, much quicker, fade elsewhere):
					// nothing the device still does for this call may depend on it
					sent.Brightness.LevelPercent = 55
					if sent.Brightness.BrightnessTween != nil {
						sent.Brightness.BrightnessTween.TotalDuration = durationpb.New(time.Millisecond)
					}
				}
			}
		})
	}
	w.Run()
	if w.truncated {
		return
	}
	if w.Deadlocked || len(w.Unfinished(false)) > 0 {
		w.Violate("write-hangs", "an UpdateBrightness call did not return: "+strings.Join(w.Unfinished(true), ","), nil)
		return
	}
	// let every fade run out
	for i := 0; i < 30; i++ {
		w.Advance(100 * time.Millisecond) // (a fade that is a task of its own is released tick by tick)
		w.Run()
		// a fade's progress is a function of the time since it was asked for and of the duration it was asked with:
		// whichever fade wrote the stored progress, it cannot be ahead of the furthest any of them can be by now
		if g, err := dev.GetBrightness(context.Background(), &traits.GetBrightnessRequest{Name: "l"}); err == nil && g.GetBrightnessTween().GetProgress() > 0 {
			bound := float64(0)
			for _, cs := range clients {
				for _, c := range cs {
					if d := c.req.Brightness.GetBrightnessTween().GetTotalDuration().AsDuration(); c.err == nil && d > 0 {
						if b := 100 * float64(time.Since(c.start)) / float64(d); b > bound {
							bound = b
						}
					}
				}
			}
			if p := float64(g.BrightnessTween.Progress); p > bound+0.01 && p > 0 {
				w.Violate("caller-mutation-visible", fmt.Sprintf("the stored fade progress is %v%%, but no fade that was asked for can be further than %.3f%% by now; the callers changed their request messages after their calls had returned (reuse=%v)", p, bound, reuse), nil)
				return
			}
		}
	}
	final, err := dev.GetBrightness(context.Background(), &traits.GetBrightnessRequest{Name: "l"})
	if err != nil {
		w.Violate("get-failed", err.Error(), nil)
		return
	}
	var cands []string
	any := false
	for _, cs := range clients {
		var last *call
		for _, c := range cs {
			if c.err == nil {
				last = c
			}
		}
		if last == nil {
			continue
		}
		any = true
		want := proto.Clone(last.resp).(*traits.Brightness)
		if want.BrightnessTween != nil {
			// a fade: ends on its target with the tween properties cleared
			want = &traits.Brightness{LevelPercent: last.resp.TargetLevelPercent, Preset: last.resp.Preset}
		}
		if proto.Equal(final, want) {
			return
		}
		cands = append(cands, fmt.Sprintf("%v (after %v -> %v)", want, last.req, last.resp))
	}
	if !any {
		return
	}
	w.Violate("lost-update", fmt.Sprintf("after every fade has run out the brightness is %v; the last acknowledged call of each client would leave: %s", final, strings.Join(cands, " | ")), nil)
}
