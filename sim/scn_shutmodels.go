package verifsim

import (
	"context"
	"fmt"
	"reflect"
	"sort"
	"strings"
)

// C10 on the trait models: every Pull* method of every discovered model is a subscription too. A consumer that stops
// receiving and whose context is then cancelled (with changes still on their way to it) must not leave any goroutine of
// the model behind, and the model's writers must not be stalled by it.

func init() {
	register(&Scenario{Name: "shut-models", Prop: "C10", Faulty: true, Doc: "a tape-chosen discovered trait model: 1-3 Pull* subscriptions (whatever arguments the method takes are synthesised) whose consumers receive 0-2 events and then stop, write methods called with synthesised arguments in between and afterwards, cancel at a scheduler-chosen moment; afterwards no goroutine of the library is left and the writer has finished",
		Run:  shutModelsRun,
		Real: []string{"every discovered pkg/trait/*pb Model with Pull* methods", "pkg/resource", "internal/minibus"}, Stub: []string{"writer / consumer / canceller tasks", "synthesised arguments"}})
}

func shutModelsRun(w *World) {
	t := w.Tape
	var cands []modelEntry
	for _, me := range modelRegistry {
		if me.NewModel != nil {
			cands = append(cands, me)
		}
	}
	if len(cands) == 0 {
		return
	}
	me := cands[t.Choose(len(cands))]
	w.SetCase("shut-models:" + me.Pkg)
	p := &prng{s: uint64(1 + t.Choose(1<<20))}
	obj := reflect.ValueOf(me.NewModel())
	ty := obj.Type()
	var pulls, writes []reflect.Method
	for i := 0; i < ty.NumMethod(); i++ {
		m := ty.Method(i)
		ok := true
		for a := 1; a < m.Type.NumIn(); a++ {
			if m.Type.IsVariadic() && a == m.Type.NumIn()-1 {
				continue
			}
			if _, can := synthArg(m.Type.In(a), p, context.Background()); !can {
				ok = false
			}
		}
		if !ok {
			continue
		}
		n := m.Name
		switch {
		case strings.HasPrefix(n, "Pull"):
			if m.Type.NumOut() == 1 && m.Type.Out(0).Kind() == reflect.Chan {
				pulls = append(pulls, m)
			}
		case strings.HasPrefix(n, "Get") || strings.HasPrefix(n, "List") || strings.HasPrefix(n, "Describe") || strings.HasPrefix(n, "Find") || strings.HasPrefix(n, "Has"):
		default:
			writes = append(writes, m)
		}
	}
	if len(pulls) == 0 || len(writes) == 0 {
		return
	}
	sort.Slice(pulls, func(i, j int) bool { return pulls[i].Name < pulls[j].Name })
	sort.Slice(writes, func(i, j int) bool { return writes[i].Name < writes[j].Name })
	w.MarkNontrivial()
	ctx, cancel := context.WithCancel(context.Background())
	call := func(m reflect.Method) (res []reflect.Value) {
		defer func() { _ = recover() }() // a model method that rejects a synthesised argument by panicking is not what is judged here
		args := []reflect.Value{obj}
		for a := 1; a < m.Type.NumIn(); a++ {
			if m.Type.IsVariadic() && a == m.Type.NumIn()-1 {
				continue
			}
			v, _ := synthArg(m.Type.In(a), p, ctx)
			args = append(args, v)
		}
		return m.Func.Call(args)
	}
	nsub := 1 + t.Choose(3)
	for i := 0; i < nsub; i++ {
		pm := pulls[t.Choose(len(pulls))]
		take := t.Choose(3)
		name := fmt.Sprintf("s%d", i)
		w.Go(name, true, func(task *Task) {
			res := call(pm)
			if len(res) != 1 || res[0].Kind() != reflect.Chan {
				return
			}
			ch := res[0]
			for k := 0; k < take; k++ {
				task.Yield("recv")
				if _, ok := ch.Recv(); !ok {
					return
				}
			}
			w.Fault("abandon")
			// stops receiving; the subscription stays open until somebody cancels its context
		})
	}
	nops := 1 + t.Choose(5)
	w.Go("w", false, func(task *Task) {
		for i := 0; i < nops; i++ {
			task.Yield("op")
			call(writes[t.Choose(len(writes))])
		}
	})
	k := t.Choose(8)
	w.Go("canceller", false, func(task *Task) {
		for i := 0; i < k; i++ {
			task.Yield("wait")
		}
		task.Yield("cancel")
		w.Fault("cancel")
		cancel()
	})
	w.Run()
	if w.truncated {
		cancel()
		w.Run()
		return
	}
	if w.Deadlocked || len(w.Unfinished(false)) > 0 {
		w.Violate("writer-stalled", fmt.Sprintf("%s: the writer did not finish although every subscription's context was cancelled: %s", me.Pkg, strings.Join(w.Unfinished(true), ",")), map[string]any{"model": me.Pkg})
	}
	cancel()
	w.Run()
	// leaks are judged by the kernel at the end of the bubble (goroutines still blocked in library frames)
}
