//go:build race

package verifsim

import "runtime"

const raceBuild = true

func hideBegin() { runtime.RaceDisable() }
func hideEnd()   { runtime.RaceEnable() }
