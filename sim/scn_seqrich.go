package verifsim

import (
	"fmt"
	"sort"
	"strings"

	"google.golang.org/grpc/codes"
	"google.golang.org/protobuf/proto"

	"github.com/smart-core-os/sc-api/go/traits"
	"github.com/smart-core-os/sc-golang/internal/testproto"
	"github.com/smart-core-os/sc-golang/pkg/resource"
)

// C01, arbitrary-message variant: the register/map behaviour must not depend on the shape of the message. Whole-message
// writes (no masks: mask semantics on nested / repeated / oneof fields are C05's subject) of reflectively filled
// messages of the all-field-kinds test message and of several trait messages, with expected value / check /
// expect-absent / create-if-absent / allow-missing, against a map of deep copies.

func init() {
	register(&Scenario{Name: "seq-rich", Prop: "C01", Doc: "one caller, 1-12 whole-message Set/Add/Update/Delete/Get/List calls with reflectively filled messages of TestAllTypes and trait types (OnOff, ElectricDemand, Brightness, Child, Metadata) and expected value / check / expect-absent / create-if-absent / allow-missing; results and contents compared (proto.Equal) with a map of deep copies after every call",
		Run:  seqRichRun,
		Real: []string{"pkg/resource Value/Collection", "pkg/masks (nil masks)"}, Stub: []string{"reference map of deep copies"}})
}

func seqRichRun(w *World) {
	t := w.Tape
	p := &prng{s: uint64(1 + t.Choose(1<<20))}
	protos := []func() proto.Message{
		func() proto.Message { return &testproto.TestAllTypes{} },
		func() proto.Message { return &traits.OnOff{} },
		func() proto.Message { return &traits.ElectricDemand{} },
		func() proto.Message { return &traits.Brightness{} },
		func() proto.Message { return &traits.Child{} },
		func() proto.Message { return &traits.Metadata{} },
	}
	mk := protos[t.Choose(len(protos))]
	fresh := func() proto.Message {
		m := mk()
		fillMessage(m.ProtoReflect(), p, 2)
		return m
	}
	coll := t.Flag(1, 2)
	ids := []string{"a", "b", "c"}
	ref := map[string]proto.Message{}
	var val *resource.Value
	var col *resource.Collection
	if coll {
		var opts []resource.Option
		for _, id := range ids[:t.Choose(3)] {
			m := fresh()
			ref[id] = proto.Clone(m)
			opts = append(opts, resource.WithInitialRecord(id, m))
		}
		col = resource.NewCollection(opts...)
	} else {
		m := fresh()
		ref[""] = proto.Clone(m)
		val = resource.NewValue(resource.WithInitialValue(m))
	}
	w.Mix(fmt.Sprintf("%T coll=%v", mk(), coll))
	n := 1 + t.Choose(12)
	for i := 0; i < n; i++ {
		id := ids[t.Choose(3)]
		if !coll {
			id = ""
		}
		cur, has := ref[id]
		kind := t.Choose(6)
		var opts []resource.WriteOption
		wantCode := codes.OK
		// preconditions
		if t.Flag(1, 3) {
			if has && t.Flag(1, 2) {
				opts = append(opts, resource.WithExpectedValue(proto.Clone(cur)))
			} else {
				other := fresh()
				opts = append(opts, resource.WithExpectedValue(other))
				expectOK := has && proto.Equal(other, cur)
				if !has {
					expectOK = proto.Equal(other, mk()) // on a create the current value is the empty message
				}
				if !expectOK {
					wantCode = codes.FailedPrecondition
				}
			}
		}
		desc := ""
		var gotMsg proto.Message
		var err error
		switch {
		case kind == 0: // Get
			if coll {
				g, ok := col.Get(id)
				if ok != has || (ok && !proto.Equal(g, cur)) {
					w.Violate("model-mismatch", fmt.Sprintf("call %d Get(%q) = %v,%v; the map holds %v,%v", i, id, g, ok, cur, has), map[string]any{"op": "get", "rich": true})
					return
				}
			} else if g := val.Get(); !proto.Equal(g, cur) {
				w.Violate("model-mismatch", fmt.Sprintf("call %d Get() = %v; expected %v", i, g, cur), map[string]any{"op": "get", "rich": true})
				return
			}
			w.Mix("get")
			continue
		case kind == 1 && coll: // Delete
			allow := t.Flag(1, 2)
			opts = append(opts, resource.WithAllowMissing(allow))
			gotMsg, err = col.Delete(id, opts...)
			desc = fmt.Sprintf("Delete(%q, allowMissing=%v)", id, allow)
			switch {
			case !has && allow:
				wantCode = codes.OK
			case !has:
				wantCode = codes.NotFound
			}
			if errCode(err) != wantCode {
				w.Violate("model-mismatch", fmt.Sprintf("call %d %s -> %v, expected %v", i, desc, err, wantCode), map[string]any{"op": "delete", "rich": true})
				return
			}
			if wantCode == codes.OK && has {
				if !proto.Equal(gotMsg, cur) {
					w.Violate("model-mismatch", fmt.Sprintf("call %d %s returned %v, the map held %v", i, desc, gotMsg, cur), map[string]any{"op": "delete", "rich": true})
					return
				}
				delete(ref, id)
			}
		default: // Set / Add / Update
			msg := fresh()
			keep := proto.Clone(msg)
			switch {
			case !coll:
				gotMsg, err = val.Set(msg, opts...)
				desc = "Set"
			case kind == 2:
				gotMsg, err = col.Add(id, msg, opts...)
				desc = fmt.Sprintf("Add(%q)", id)
				if has {
					wantCode = codes.AlreadyExists
				}
			default:
				create := t.Flag(1, 2)
				if create {
					opts = append(opts, resource.WithCreateIfAbsent())
				}
				gotMsg, err = col.Update(id, msg, opts...)
				desc = fmt.Sprintf("Update(%q, createIfAbsent=%v)", id, create)
				if !has && !create {
					wantCode = codes.NotFound
				}
			}
			if errCode(err) != wantCode {
				w.Violate("model-mismatch", fmt.Sprintf("call %d %s -> %v, expected %v (current %v)", i, desc, err, wantCode, cur), map[string]any{"op": "write", "rich": true})
				return
			}
			if wantCode == codes.OK {
				if !proto.Equal(gotMsg, keep) {
					w.Violate("model-mismatch", fmt.Sprintf("call %d %s wrote %v but returned %v", i, desc, keep, gotMsg), map[string]any{"op": "write", "rich": true})
					return
				}
				ref[id] = keep
			}
		}
		w.Mix(desc)
		// contents
		if coll {
			var want []string
			for _, k := range ids {
				if m, ok := ref[k]; ok {
					want = append(want, fmt.Sprint(m))
				}
			}
			var got []string
			for _, m := range col.List() {
				got = append(got, fmt.Sprint(m))
			}
			sort.Strings(want)
			gs := append([]string{}, got...)
			sort.Strings(gs)
			if strings.Join(gs, "|") != strings.Join(want, "|") || len(got) != len(ref) {
				w.Violate("contents-mismatch", fmt.Sprintf("after call %d %s: List %v, the map holds %v", i, desc, got, want), map[string]any{"rich": true})
				return
			}
		} else if !proto.Equal(val.Get(), ref[""]) {
			w.Violate("contents-mismatch", fmt.Sprintf("after call %d %s: Get %v, expected %v", i, desc, val.Get(), ref[""]), map[string]any{"rich": true})
			return
		}
	}
	if n > 1 {
		w.MarkNontrivial()
	}
}
