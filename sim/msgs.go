package verifsim

import (
	"fmt"

	"google.golang.org/protobuf/proto"

	"github.com/smart-core-os/sc-golang/internal/testproto"
)

// The flat message used by the reference model: four scalar fields of testproto.TestAllTypes.
//
//	V  default_int32   unique version number of a write (every written value is unique)
//	N  default_int64   counter used by delta interceptors
//	S  default_string  free tag
//	B  default_bool
type mm struct {
	V int32
	N int64
	S string
	B bool
}

const (
	fV = "default_int32"
	fN = "default_int64"
	fS = "default_string"
	fB = "default_bool"
)

var allFields = []string{fV, fN, fS, fB}

func (m mm) String() string {
	b := ""
	if m.B {
		b = "!"
	}
	return fmt.Sprintf("{v%d n%d %q%s}", m.V, m.N, m.S, b)
}

func (m mm) pb() *testproto.TestAllTypes {
	return &testproto.TestAllTypes{DefaultInt32: m.V, DefaultInt64: m.N, DefaultString: m.S, DefaultBool: m.B}
}

// ballast is a constant nested part that scenarios can give to every message they write (resCfg.Ballast): the model
// does not know it, but a message that comes back with only a part of it has been damaged on the way (a nested read
// mask that was applied to shared state, for instance).
func ballast() *testproto.TestAllTypes_NestedMessage {
	return &testproto.TestAllTypes_NestedMessage{A: 7, Corecursive: &testproto.TestAllTypes{DefaultInt32: 7, DefaultString: "ballast"}}
}

func (m mm) pbWith(withBallast bool) *testproto.TestAllTypes {
	p := m.pb()
	if withBallast {
		p.DefaultNestedMessage = ballast()
	}
	return p
}

// fromPB converts; ok is false when the message carries anything outside the four model fields.
func fromPB(p proto.Message) (m mm, ok bool) {
	if p == nil {
		return mm{}, false
	}
	t, isT := p.(*testproto.TestAllTypes)
	if !isT || t == nil {
		return mm{}, false
	}
	m = mm{V: t.DefaultInt32, N: t.DefaultInt64, S: t.DefaultString, B: t.DefaultBool}
	if t.DefaultNestedMessage == nil {
		return m, proto.Equal(m.pb(), t)
	}
	// the ballast is either there in full or (projected away) not at all
	return m, proto.Equal(m.pbWith(true), t)
}

func mustMM(p proto.Message) mm {
	m, _ := fromPB(p)
	return m
}

func (m mm) get(f string) any {
	switch f {
	case fV:
		return m.V
	case fN:
		return m.N
	case fS:
		return m.S
	case fB:
		return m.B
	}
	return nil
}

func (m *mm) copyField(f string, src mm) {
	switch f {
	case fV:
		m.V = src.V
	case fN:
		m.N = src.N
	case fS:
		m.S = src.S
	case fB:
		m.B = src.B
	}
}

func (m *mm) clearField(f string) {
	m.copyField(f, mm{})
}

// project returns m restricted to the given fields (nil = all, empty = none).
func (m mm) project(fields []string, all bool) mm {
	if all {
		return m
	}
	var out mm
	for _, f := range fields {
		out.copyField(f, m)
	}
	return out
}

func pbDesc(p proto.Message) string {
	if p == nil {
		return "<nil>"
	}
	if m, ok := fromPB(p); ok {
		return m.String()
	}
	return fmt.Sprint(p)
}
