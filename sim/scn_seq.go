package verifsim

import (
	"encoding/base64"
	"fmt"
	"strings"
	"time"

	"google.golang.org/grpc/codes"

	"github.com/smart-core-os/sc-api/go/types"
)

// C01 — Value/Collection conform to a sequential register/map specification (DESIGN.md §5 C01).
//
// One caller, so there is no schedule: what the simulator contributes is the executable reference model (reused by
// C02-C04, C08, C09), the two nondeterminism seams the statement depends on (generated ids = rng, write time = clock)
// with faults, and the "emits nothing" clause observed through a subscriber that is live during the calls.

func init() {
	register(&Scenario{Name: "seq-value", Prop: "C01", Faulty: true, Doc: "one caller, 1-30 Get/Set calls with every subset of write/read options on a Value; result, contents and emitted events compared with the reference model after every call; clock jumps",
		Run:  func(w *World) { seqRun(w, false) },
		Real: []string{"pkg/resource Value", "pkg/masks (through Value)", "internal/minibus"}, Stub: []string{"reference model", "probe subscriber", "clock", "rng"}})
	register(&Scenario{Name: "seq-coll", Prop: "C01", Faulty: true, Doc: "one caller, 1-30 Get/List/Add/Update/Delete calls with every subset of options on a Collection (id interceptor, generated ids with colliding / short-reading / failing rng); compared with the reference model after every call",
		Run:  func(w *World) { seqRun(w, true) },
		Real: []string{"pkg/resource Collection, GenerateUniqueId", "pkg/masks (through Collection)", "internal/minibus"}, Stub: []string{"reference model", "probe subscriber", "clock", "rng"}})
}

// ladderRNG returns bytes that depend only on the requested length, so the k-th candidate of every generation is the
// same string: the first generation takes candidate 0, the second collides once and takes candidate 1, ... the eleventh
// exhausts all attempts.
type ladderRNG struct{ reads int }

func (l *ladderRNG) Read(p []byte) (int, error) {
	l.reads++
	for i := range p {
		p[i] = byte(0x40 + len(p))
	}
	return len(p), nil
}

func ladderID(n int) string {
	b := make([]byte, n)
	for i := range b {
		b[i] = byte(0x40 + n)
	}
	return base64.RawURLEncoding.EncodeToString(b)
}

func seqRun(w *World, coll bool) {
	t := w.Tape
	cfg := resCfg{Coll: coll}
	// (an equivalence is about what subscribers are told: what is stored, returned and read is the same with or without)
	cfg.Equiv = t.Flag(1, 4)
	// writable fields
	switch t.Choose(4) {
	case 1:
		cfg.HasW, cfg.W = true, []string{fV, fN}
	case 2:
		cfg.HasW, cfg.W = true, []string{fV, fN, fS}
	}
	ids := []string{"a", "b"}
	var nextV int32
	fresh := func() int32 { nextV++; return nextV }
	rngMode := 0
	if coll {
		cfg.LowerIDs = t.Flag(1, 3)
		if cfg.LowerIDs {
			ids = []string{"a", "b", "A"}
		}
		cfg.Initial = map[string]mm{}
		switch t.Choose(3) {
		case 1:
			cfg.Initial["a"] = mm{V: fresh()}
		case 2:
			cfg.Initial["a"] = mm{V: fresh()}
			cfg.Initial["b"] = mm{V: fresh(), S: "x"}
		}
		rngMode = t.Choose(4) // 0 normal, 1 ladder (collisions), 2 all-zero, 3 short reads with errors
	} else if t.Flag(2, 3) {
		cfg.HasInitial, cfg.InitialVal = true, mm{V: fresh(), N: int64(t.Choose(3))}
	}
	clock := &simClock{}
	rng := &simRNG{}
	switch rngMode {
	case 2:
		rng.mode = 2
		w.Fault("rng-zero")
	case 3:
		rng.mode = 3
		w.Fault("rng-short-read-error")
	}
	var r *realRes
	if rngMode == 1 {
		// ladder mode needs its own reader type
		r = newRealResRNG(cfg, clock, &ladderRNG{})
		w.Fault("rng-colliding")
		if t.Flag(1, 2) {
			// pre-populate rungs through explicit ids, so that later generations collide many times
			for k := 6; k < 6+2+t.Choose(9); k++ {
				ids = append(ids, ladderID(k))
			}
		}
	} else {
		r = newRealRes(cfg, clock, rng)
	}
	m := newModel(cfg)
	pr := startProbe(w, r)
	defer func() {
		pr.cancel()
		w.Run()
	}()

	n := 1 + t.Choose(8)
	if t.Flag(1, 6) {
		n = 9 + t.Choose(22)
	}
	if rngMode == 1 && t.Flag(1, 2) {
		n = 12 + t.Choose(14)
	}
	genIDs := []string{}
	curOf := func(id string) (mm, bool) {
		if coll {
			v, ok := m.items[m.mapID(id)]
			return v, ok
		}
		return m.val, m.present
	}
	masks := [][]string{{fV}, {fV, fN}, {fS}, {}, {"nope"}, {fB}, {fV, fS, fB}}
	opts := 0
	for i := 0; i < n; i++ {
		if t.Flag(1, 10) {
			d := []time.Duration{time.Millisecond, -time.Millisecond, time.Hour, -time.Hour}[t.Choose(4)]
			clock.Jump(d)
			w.Fault("clock-jump")
		}
		var o wop
		pool := ids
		if len(genIDs) > 0 && t.Flag(1, 3) {
			pool = genIDs
		}
		id := pool[t.Choose(len(pool))]
		if coll {
			switch t.Choose(10) {
			case 0:
				o.Kind, o.ID = opGet, id
			case 1:
				o.Kind = opList
			case 2, 3, 4:
				o.Kind, o.ID = opAdd, id
			case 5, 6, 7:
				o.Kind, o.ID = opUpdate, id
			default:
				o.Kind, o.ID = opDelete, id
			}
			if rngMode == 1 && t.Flag(1, 2) {
				o.Kind, o.ID = opAdd, ""
				if len(ids) > 3 && t.Flag(1, 2) {
					o.ID = ids[3+t.Choose(len(ids)-3)]
				}
			}
		} else {
			if t.Flag(1, 5) {
				o.Kind = opGet
			} else {
				o.Kind = opSet
			}
		}
		switch o.Kind {
		case opGet, opList:
			switch t.Choose(4) {
			case 1:
				o.RMaskSet, o.RMask = true, []string{fV}
			case 2:
				o.RMaskSet, o.RMask = true, []string{}
			case 3:
				o.RMaskSet, o.RMask = true, []string{fN, fS}
			}
		default:
			cur, has := curOf(o.ID)
			if o.Kind != opDelete {
				o.Val = mm{V: fresh(), N: int64(t.Choose(3)), B: t.Flag(1, 3)}
				if t.Flag(1, 2) {
					o.Val.S = fmt.Sprintf("s%d", o.Val.V)
				}
				if t.Flag(1, 3) {
					o.HasMask, o.Mask = true, masks[t.Choose(len(masks))]
					opts++
				}
				if t.Flag(1, 5) {
					o.Reset = [][]string{{fS}, {fN}, {"nope"}, {fV, fB}}[t.Choose(4)]
					opts++
				}
				if t.Flag(1, 5) {
					o.HasDelta, o.Delta = true, int64(1+t.Choose(3))
					opts++
				}
				if t.Flag(1, 6) {
					o.After = true
					opts++
				}
				if t.Flag(1, 8) {
					o.AllWritable = true
					opts++
				}
				if t.Flag(1, 8) {
					o.MoreW = [][]string{{fS}, {fB}, {fS, fB}}[t.Choose(3)]
					opts++
				}
				if t.Flag(1, 8) {
					o.HasWT, o.WT = true, time.Unix(int64(1000+t.Choose(1000)), 0)
					opts++
				}
				if t.Flag(1, 8) {
					o.HasMore, o.MoreMask = true, [][]string{{fS}, {fB}, {fN, fS}}[t.Choose(3)]
					o.MoreFirst = !o.HasMask && t.Flag(1, 2)
					opts++
				}
				if o.Kind == opUpdate {
					o.CreateIfAbs = t.Flag(1, 2)
					o.ExpectAbs = t.Flag(1, 6)
				}
				if o.Kind != opSet {
					if t.Flag(1, 4) || (o.ID == "" && rngMode == 1) {
						o.GenID = true
						opts++
						if t.Flag(2, 3) {
							o.ID = ""
						}
					}
					o.CreatedCB = t.Flag(1, 3)
					o.CBMark = (o.GenID || o.CreatedCB) && t.Flag(1, 2)
				}
			} else {
				o.AllowMiss = t.Flag(1, 3)
			}
			if t.Flag(1, 4) {
				opts++
				o.HasExpect = true
				if has && t.Flag(2, 3) {
					o.Expect = cur
				} else {
					o.Expect = mm{V: int32(t.Choose(int(nextV) + 1))}
				}
			}
			if t.Flag(1, 4) {
				opts++
				o.HasCheck = true
				if t.Flag(2, 3) {
					o.CheckV = cur.V
				} else {
					o.CheckV = int32(t.Choose(int(nextV) + 1))
				}
			}
		}
		w.Mix(o.kindSig())
		before := m.clone()
		evBefore := len(pr.sub.events)
		got := r.apply(o)
		// events are delivered synchronously to the always-receiving backpressured probe, but let the bubble settle anyway
		w.wait()
		// generated id properties
		if got.IDCalls > 0 {
			genIDs = append(genIDs, got.ID)
			if got.ID == "" {
				w.Violate("genid-empty", "id callback reported an empty id for "+o.String(), nil)
			}
			if _, used := before.items[before.mapID(got.ID)]; used {
				w.Violate("genid-in-use", fmt.Sprintf("generated id %q is already in the collection (%s)", got.ID, before.contentsString()), nil)
			}
		}
		want := m.apply(o, got.ID)
		if o.GenID && o.ID == "" && got.Code == codes.Aborted && got.IDCalls == 0 && (o.Kind == opAdd || o.Kind == opUpdate) && m.validate(o) == codes.OK {
			// id generation gave up: legitimate only when the rng really collides
			if rngMode != 1 {
				w.Violate("genid-spurious-exhaustion", "id generation failed although the rng never repeats: "+o.String(), nil)
			}
			w.Fault("rng-exhausted")
		}
		if !sameRes(want, got) || got.NonFlat {
			w.Violate("model-mismatch", fmt.Sprintf("call %d: %s\n  implementation: %s\n  model:          %s\n  contents before: %s", i, o, got, want, before.contentsString()),
				map[string]any{"resource": resName(coll), "op": o.Kind, "impl": got.Code.String(), "model": want.Code.String()})
			return
		}
		// contents
		// (not always, and not always through List: an observation must not be what keeps a read path's own state fresh)
		look := t.Choose(4)
		if i == n-1 {
			look = 0
		}
		if msg := seqCompareContents(r, m, ids, genIDs, look); msg != "" {
			w.Violate("contents-mismatch", fmt.Sprintf("after call %d: %s -> %s\n  %s\n  contents before: %s", i, o, got, msg, before.contentsString()),
				map[string]any{"resource": resName(coll), "op": o.Kind, "code": got.Code.String()})
			return
		}
		// events
		newEv := pr.sub.events[evBefore:]
		wantEv := 0
		isWrite := o.Kind == opSet || o.Kind == opAdd || o.Kind == opUpdate || o.Kind == opDelete
		if isWrite && got.Code == codes.OK && !(o.Kind == opDelete && !got.HasMsg) {
			wantEv = 1
		}
		if cfg.Equiv && wantEv == 1 && len(newEv) == 0 && before.contentsString() == m.contentsString() {
			wantEv = 0 // (the resource was told not to announce duplicates, and this write left what there was)
		}
		if len(newEv) != wantEv {
			w.Violate("event-count", fmt.Sprintf("call %d: %s -> %s emitted %d events (%s), expected %d", i, o, got, len(newEv), eventsString(newEv), wantEv),
				map[string]any{"resource": resName(coll), "op": o.Kind, "code": got.Code.String()})
			return
		}
		if wantEv == 1 {
			e := newEv[0]
			bad := ""
			switch {
			case o.Kind == opDelete:
				if e.Type != types.ChangeType_REMOVE || !e.HasOld || e.Old != got.Msg || e.HasNew {
					bad = "expected REMOVE carrying the deleted value"
				}
			case !e.HasNew || e.New != got.Msg:
				bad = "new value differs from the call's result"
			}
			if coll && bad == "" {
				effID := m.mapID(o.ID)
				if o.ID == "" && got.ID != "" {
					effID = m.mapID(got.ID)
				}
				if e.ID != effID {
					bad = fmt.Sprintf("event id %q, expected %q", e.ID, effID)
				}
			}
			if bad != "" {
				w.Violate("event-content", fmt.Sprintf("call %d: %s -> %s emitted %s: %s", i, o, got, e, bad), map[string]any{"resource": resName(coll), "op": o.Kind})
				return
			}
		}
		w.Note("%s -> %s", o, got)
	}
	if opts > 0 || n > 1 {
		w.MarkNontrivial()
	}
}

func newRealResRNG(cfg resCfg, clock *simClock, rd interface{ Read([]byte) (int, error) }) *realRes {
	r := newRealResWith(cfg, clock, rd)
	return r
}

// seqCompareContents compares full contents; returns "" when equal.
func seqCompareContents(r *realRes, m *model, ids, genIDs []string, look int) string {
	if look == 3 {
		return ""
	}
	if !m.cfg.Coll {
		got := r.apply(wop{Kind: opGet})
		want := m.apply(wop{Kind: opGet}, "")
		if !sameRes(got, want) {
			return fmt.Sprintf("Get returns %s, model holds %s", got, want)
		}
		return ""
	}
	if look != 2 {
		got := r.apply(wop{Kind: opList})
		want := m.apply(wop{Kind: opList}, "")
		if !sameRes(got, want) {
			return fmt.Sprintf("List returns %v, model holds %v (sorted by id: %s)", got.List, want.List, strings.Join(m.sortedIDs(), ","))
		}
	}
	for _, id := range append(append([]string{}, ids...), genIDs...) {
		g := r.apply(wop{Kind: opGet, ID: id})
		wnt := m.apply(wop{Kind: opGet, ID: id}, "")
		if !sameRes(g, wnt) {
			return fmt.Sprintf("Get(%q) returns %s, model holds %s", id, g, wnt)
		}
	}
	return ""
}
