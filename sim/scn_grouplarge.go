package verifsim

import (
	"context"
	"fmt"
	"strings"

	"google.golang.org/protobuf/proto"

	"github.com/smart-core-os/sc-golang/internal/testproto"
	"github.com/smart-core-os/sc-golang/pkg/group"
)

// C17 on groups of many members: the strategies' contracts do not depend on how many members there are. A group of
// 60-120 members of which all but one only return when their context ends (subscriptions do that): the one member that
// decides the outcome is somewhere among them, often near the end. Every parallel strategy starts all of its members,
// so the deciding member runs, the outcome is reached, and the others are released through their context.

func init() {
	register(&Scenario{Name: "group-large", Prop: "C17", Doc: "60-120 members, all but one returning only when their context is done; the deciding member (a success for Fast/Race/Any, a failure for All/Race) at a tape-chosen position, often near the end; Execute / ExecuteX from a caller task, member goroutines free-running: the call returns the decided outcome, every member was started, and all of them are released",
		Run:  groupLargeRun,
		Real: []string{"pkg/group Execute, ExecuteAll/Any/Fast/Race, executeEach"}, Stub: []string{"member functions", "caller task"}})
}

func groupLargeRun(w *World) {
	t := w.Tape
	n := 60 + t.Choose(61)
	decider := n - 1 - t.Choose(10)
	if t.Flag(1, 4) {
		decider = t.Choose(n)
	}
	kinds := []string{"All", "Any", "Fast", "Race", "RaceFail"}
	kind := kinds[t.Choose(len(kinds))]
	deciderFails := kind == "All" || kind == "RaceFail"
	direct := t.Flag(1, 2)
	w.MarkNontrivial()
	w.Mix(fmt.Sprintf("%s|%d|%d|%v", kind, n, decider, direct))
	started := make([]bool, n)
	finished := make([]bool, n)
	deciderErr := fmt.Errorf("member %d failed", decider)
	deciderMsg := &testproto.TestAllTypes{DefaultInt32: int32(1000 + decider)}
	var members []group.Member
	for i := 0; i < n; i++ {
		i := i
		members = append(members, func(ctx context.Context) (proto.Message, error) {
			started[i] = true // (one goroutine runs at a time inside the bubble's scheduler: plain flags)
			defer func() { finished[i] = true }()
			if i == decider {
				if deciderFails {
					return nil, deciderErr
				}
				return deciderMsg, nil
			}
			<-ctx.Done()
			return nil, ctx.Err()
		})
	}
	parent, cancelParent := context.WithCancel(context.Background())
	defer cancelParent()
	var (
		results  []proto.Message
		single   proto.Message
		singleI  = -1
		err      error
		returned bool
	)
	w.Go("caller", false, func(task *Task) {
		switch kind {
		case "All":
			if direct {
				results, err = group.ExecuteAll(parent, members)
			} else {
				results, err = group.Execute(parent, group.ExecutionStrategyAll, members)
			}
		case "Any":
			if direct {
				results, err = group.ExecuteAny(parent, members)
			} else {
				results, err = group.Execute(parent, group.ExecutionStrategyAny, members)
			}
		case "Fast":
			if direct {
				single, singleI, err = group.ExecuteFast(parent, members)
			} else {
				results, err = group.Execute(parent, group.ExecutionStrategyFast, members)
			}
		default:
			if direct {
				single, singleI, err = group.ExecuteRace(parent, members)
			} else {
				results, err = group.Execute(parent, group.ExecutionStrategyRace, members)
			}
		}
		returned = true
	})
	w.SetMaxSteps(6000)
	w.Run()
	if w.truncated {
		return
	}
	count := func(b []bool) (k int) {
		for _, x := range b {
			if x {
				k++
			}
		}
		return
	}
	desc := fmt.Sprintf("strategy=%s(direct=%v) n=%d deciding member %d (fails=%v): %d members started, %d returned, err=%v", kind, direct, n, decider, deciderFails, count(started), count(finished), err)
	w.Note("%s", desc)
	key := map[string]any{"strategy": kind, "large": true}
	// "Any" is decided by the first success only as far as its result goes: the call itself returns when every member
	// has, and the waiting members of a successful Any are not cancelled by it - release them through the parent
	if kind == "Any" && !returned && started[decider] {
		cancelParent()
		w.Run()
	}
	if !returned {
		if !started[decider] {
			w.Violate("caller-stuck", "the member that decides the outcome was never started: "+desc+"\n  waiting: "+strings.Join(w.Unfinished(true), ","), key)
		} else {
			w.Violate("caller-stuck", "Execute did not return although the outcome was decided: "+desc+"\n  waiting: "+strings.Join(w.Unfinished(true), ","), key)
		}
		cancelParent()
		w.Run()
		return
	}
	switch kind {
	case "All", "RaceFail":
		if err == nil || err.Error() != deciderErr.Error() {
			w.Violate("wrong-error", "expected the deciding member's error: "+desc, key)
		}
	case "Fast", "Race":
		got := single
		if !direct && len(results) > 0 {
			for _, r := range results {
				if r != nil {
					got = r
				}
			}
		}
		if err != nil || got == nil || !proto.Equal(got, deciderMsg) || (direct && singleI != decider) {
			w.Violate("wrong-result", fmt.Sprintf("expected the deciding member's response (index %d), got %v index %d: %s", decider, got, singleI, desc), key)
		}
	case "Any":
		if err != nil || len(results) != n || results[decider] == nil || !proto.Equal(results[decider], deciderMsg) {
			w.Violate("wrong-result", "expected success with the deciding member's response in its place: "+desc, key)
		}
	}
	cancelParent()
	w.Run()
	if s, f := count(started), count(finished); f != s {
		w.Violate("member-stuck", fmt.Sprintf("%d members were started but only %d returned after the call was over and its context cancelled: %s", s, f, desc), key)
	}
	if kind != "Race" && kind != "RaceFail" && kind != "Fast" && count(started) != n {
		// (All / Any wait for every member: each of them has run)
		w.Violate("member-not-run", "a strategy that waits for all members returned without having started every one of them: "+desc, key)
	}
}
