"""Per-property plans: scenarios, run counts per tier, evidence rule text."""

RULE_SCHED = ("runs are generated from a decision tape seeded by (VERIF_SEED, scenario, run index): scenario configuration, operations, "
              "subscription options, scheduling policy and every scheduling decision and fault come from it. A run is non-trivial when at least "
              "one context switch happened while another task was parked at a hook inside a library operation, or at least one fault fired; "
              "distinct = distinct schedule fingerprints (hash of the sequence of (task, hook point) releases and time jumps) among non-trivial runs, "
              "unioned over all workers.")

TRUST = ("trusted base: Go 1.26.8 runtime and testing/synctest (quiescence detection, fake clock); the harness kernel in /verif/sim; "
         "a copy of runtime/select.go with a seedable poll order (build-time overlay); preemption only at hook points - hand-placed simhook calls "
         "and the mechanical ones of gen/autohook (lock gates, yields after Unlock, before select/send, at the start of goroutine literals and "
         "of their loops); goroutines the library starts are scheduled eagerly in half of the runs and as tasks of their own in the other half "
         "(those started by a scenario's set-up code always eagerly); sampled, not exhaustive")

NOT_APPLICABLE = {
    "C05": "pure function of (stored message, written message, masks): no schedule, clock, fault or second party for a simulator to control",
    "C06": "pure function of (message, read mask); 'never mutates' is an input/output frame condition, not a property of an interleaving or fault",
    "C15": "the statement holds the collection fixed while paging; what remains is a pure function of (contents, page size, token)",
    "C16": "comparers are pure predicates on message pairs; no schedule, timer or fault is involved",
    "C18": "pure arithmetic on periods and segment lists; nothing for a scheduler or fault injector to vary",
    "C20": "single-caller input/output relations of each model's rules; clocks are merely read as values; no interleaving, timer or fault in the statement",
}

# claimed by DESIGN.md but whose check is not built yet (kept out of `checks` until it runs clean end to end)
PENDING = {p: "in scope for deterministic simulation (DESIGN.md §5) but the check is not built yet in this revision; not claimed"
           for p in []}

PROPS = {
    "C07": {
        "level": "exploration",
        "level_text": "an alias monitor deep-copies every message that crosses the API boundary (write arguments and results, read results, old/new values of every received event, seeds) at that instant and re-compares it after every later operation and at the end of the run, while other parties (consumers scheduled at their own pace, earlier callers) keep holding them; plus caller-mutation after a write and stored-state comparison around read-only calls; on the core resources (single writer, and two plain writers racing), on the parent/metadata/enter-leave models and, through a reflective driver, on every discovered trait model and model server; plus fades that must not follow what callers later do to their request messages",
        "level_note": TRUST + "; the reflective driver synthesises arguments by type and skips (and lists in the evidence) methods whose parameters it cannot build; a model method that panics on a synthesised argument is ignored here",
        "technique": "deterministic simulation (writer and holder/consumer tasks, seeded schedules) with an alias monitor (snapshot-at-crossing, re-compare after every step) and a caller-mutation fault",
        "rule": RULE_SCHED + " For this property a run with at least two operations is also non-trivial (earlier results are held across later operations).",
        "scenarios": [
            {"name": "alias-res", "quick": 30000, "thorough": 3000000, "thorough_time": 200, "extra": ["-sim.only=message-changed,read-changed-store,caller-mutation-visible"]},
            {"name": "alias-race", "quick": 20000, "thorough": 1000000, "thorough_time": 80, "extra": ["-sim.only=message-changed,read-changed-store,caller-mutation-visible"]},
            {"name": "alias-models", "quick": 70000, "thorough": 3000000, "thorough_time": 300, "extra": ["-sim.only=message-changed,read-changed-store,caller-mutation-visible"]},
            {"name": "alias-tween", "quick": 8000, "thorough": 100000, "thorough_time": 30, "extra": ["-sim.only=caller-mutation-visible"]},
        ],
        "require_hits": ["caller-mutate"],
        "assumptions": ["wrapped RPC paths are deliberately not used here: wrap copies messages and would hide model-level aliasing"],
    },
    "C14": {
        "level": "exploration",
        "level_text": "every model server / memory device discovered from the source tree that exposes a single-register Get/Update/Pull triple is put behind wrapper -> router -> wrapper (all real code, free-running between the two wrappers) and driven with protoreflect-built random updates, update masks (valid, invalid, nil) and read masks, with 0-2 open streams whose readers keep up; relational register laws at true quiescence after every RPC; a stream opened while another client's Update is in progress (handler goroutines scheduled by the simulator) must have arrived at what Get returns once at rest; concurrent relative updates from several clients come to what a second instance of the server makes of them from one caller, a rejected one having changed nothing; generated concurrent Updates leave what the successful ones alone make of a second instance of the server in some order; measured coverage of the discovered triples",
        "level_note": TRUST + "; servers whose constructor or request shape the discovery does not understand are listed in the evidence as not covered; float fields count as changed only from a difference of 1.0 (the models' tolerances are their business); tweens are not advanced between an Update and the following Get",
        "technique": "deterministic simulation (client task, fake clock, synctest quiescence) of the full wrapper/router/wrapper/server stack with relational read-your-writes oracles over discovered Get/Update/Pull triples",
        "rule": ("(server, triple) from the decision tape, then 1-6 RPCs (Update with random message and mask kind, Get with read mask, open Pull updates-only or not); every run is non-trivial (client, server and stream readers); "
                 "distinct = distinct (server/triple, RPC kind sequence) fingerprints"),
        "scenarios": [
            {"name": "stack", "quick": 40000, "thorough": 2000000, "thorough_time": 300, "extra": ["-sim.only=get-failed,read-mask,read-changed-state,pull-failed,pull-no-seed,pull-seed,pull-name,unrouted,rejected-update-changed-state,read-your-write,update-not-streamed,stream-order-differs,rpc-stuck,panic"]},
            {"name": "stack-race", "quick": 20000, "thorough": 1000000, "thorough_time": 150, "extra": ["-sim.only=get-failed,read-mask,read-changed-state,pull-failed,pull-no-seed,pull-seed,pull-name,unrouted,rejected-update-changed-state,read-your-write,update-not-streamed,stream-order-differs,rpc-stuck,panic"]},
            {"name": "stack-relative", "quick": 10000, "thorough": 500000, "thorough_time": 60},
            {"name": "stack-serial", "quick": 60000, "thorough": 1000000, "thorough_time": 80},
        ],
        "case_space": "from_worker",
        "case_space_what": "(discovered server, Get/Update/Pull triple) pairs",
        "require_hits": [],
        "assumptions": ["item-addressed resources (Get by id) are not single registers and are listed as not covered"],
    },
    "C12": {
        "level": "exploration",
        "level_text": "every generated router (discovered from the source tree, count cross-checked against the file glob) x every method of its service descriptor, driven through the descriptor's own handlers with random requests and scripted fake backends (faults: backend status at any position, caller send error at message j, factory/fallback misses; in one run of four a wrapped hop - a typed client over pkg/wrap to a second router - sits between the router and the backends); registry histories by 1-3 tasks at the router's windows checked for linearizability against a map model; the default-name interceptors also on their own, with streams of several requests; measured coverage of the (router, method) space, required complete in the thorough tier",
        "level_note": TRUST + "; porcupine for the registry; fake backends are typed sc-api clients over a recording grpc.ClientConnInterface. NOT decided: the textual clause that checked-in routers/wrappers are byte-for-byte what the generators produce - its behavioural consequence (every descriptor method is routed, none falls through to Unimplemented) is decided by the enumeration",
        "technique": "deterministic simulation: enumeration of (router, method) with seeded requests/response scripts/faults through the service descriptors + seeded schedules of registry operations with a porcupine linearizability check",
        "rule": ("route-forward: (router, method, request name, default-name interceptor, backend script, caller send error) from the decision tape; every run is non-trivial; distinct = distinct (router.method, target name) combinations. "
                 "route-registry: " + RULE_SCHED),
        "scenarios": [
            {"name": "route-forward", "quick": 60000, "thorough": 3000000, "thorough_time": 150},
            {"name": "route-registry", "quick": 40000, "thorough": 3000000, "thorough_time": 150},
        ],
        "case_space": "from_worker",
        "case_space_what": "(generated router, method of its service descriptor) pairs discovered from /repo/pkg/trait",
        "require_hits": ["send-err", "router.get.miss", "router.get.insert"],
        "assumptions": ["client-streaming methods would not be covered (none exists in the discovered descriptors; counted if one appears)"],
    },
    "C13": {
        "level": "exploration",
        "level_text": "seeded generation of joint call scripts for the four call shapes, each executed over a real gRPC server/client pair on bufconn (the reference, in a fake-clock bubble) and over wrap.ServerToClient with client and handler as scheduled tasks under several interleavings and fake-time advance for deadlines; normalised client transcripts compared; unary calls cancelled by a third party at any moment (client outcome and message isolation only)",
        "level_note": TRUST + "; google.golang.org/grpc v1.67.1 over bufconn as the oracle; scripts are causally ordered (every send meets a receiver, cancel/deadline only after a server-to-client sync) so that the reference transcript does not depend on scheduling; each reference is run twice and discarded if unstable; headers/trailers compared only where gRPC itself is deterministic about them",
        "technique": "deterministic simulation of client/handler tasks over the wrapper + differential comparison of client transcripts against real gRPC (bufconn) executions of the same scripted programs",
        "rule": ("scripts (shape, 0-5 rounds of C>S / S>C / SendHeader / SetHeader / SetTrailer / half-close, terminal: return OK / status / client cancel / deadline, mutate-after-send) and the task interleaving come from the decision tape; every run is non-trivial (two parties); distinct = distinct (script, schedule) fingerprints"),
        "scenarios": [
            {"name": "wrap", "quick": 60000, "thorough": 1000000, "thorough_time": 400},
        ],
        "require_hits": [],
        "assumptions": ["neither party relies on transport buffering (as in the statement)", "the error values a server's Recv/Send return after the call is over are not compared"],
    },
    "C11": {
        "level": "exploration",
        "race": True,
        "level_text": "the same simulator built with -race; the scheduler's hand-offs are hidden from the race detector (runtime.RaceDisable around every kernel synchronisation, bookkeeping in //go:norace code), so the only happens-before edges it sees are the library's own and a serial, replayable schedule exposes every unordered conflicting access pair on the paths it executes; schedule exploration reaches the paths; workloads on the core resources, bus, router, group, wrapper, three hand-driven models and - by reflection - every discovered model server / memory device called directly by overlapping tasks",
        "level_note": TRUST + "; the Go race detector (a report is a definite race, a miss is possible: bounded shadow history, only executed paths); reports located purely in harness frames are harness trouble, never a verdict",
        "technique": "deterministic simulation under the Go race detector with the scheduler baton hidden (happens-before race detection over seeded serial schedules)",
        "rule": RULE_SCHED,
        "scenarios": [
            {"name": "race-value", "quick": 12000, "thorough": 1000000, "thorough_time": 100, "extra": ["-sim.only=race"]},
            {"name": "race-coll", "quick": 16000, "thorough": 1000000, "thorough_time": 150, "extra": ["-sim.only=race"]},
            {"name": "race-bus", "quick": 8000, "thorough": 1000000, "thorough_time": 60, "extra": ["-sim.only=race"]},
            {"name": "race-router", "quick": 8000, "thorough": 1000000, "thorough_time": 60, "extra": ["-sim.only=race"]},
            {"name": "race-group", "quick": 8000, "thorough": 1000000, "thorough_time": 60, "extra": ["-sim.only=race"]},
            {"name": "race-wrap", "quick": 8000, "thorough": 1000000, "thorough_time": 60, "extra": ["-sim.only=race"]},
            {"name": "race-models", "quick": 40000, "thorough": 1000000, "thorough_time": 150, "extra": ["-sim.only=race"]},
            {"name": "race-servers", "quick": 16000, "thorough": 1000000, "thorough_time": 150, "extra": ["-sim.only=race"]},
        ],
        "require_hits": ["resource.gau.commit", "bus.send.each", "router.get.insert", "electric.mu"],
        "assumptions": ["tasks keep only task-local harness state; nothing is compared across tasks", "conflicting accesses that are separated by an advance of the fake clock are not visible to the race detector: testing/synctest itself synchronises there (release on durable block, acquire when the bubble's time moves on)"],
    },
    "C19": {
        "level": "exploration",
        "level_text": "seeded exploration of operation sequences through Model and through the ElectricApi/MemorySettingsApi server, first by one caller with per-call postconditions, then by 2-4 concurrent callers that are parked inside the underlying resource operations while holding the model mutex; the documented invariants at every quiescent point, a concurrent clear must return a mode marked normal, start-time stamping against the injected clock (per call; at rest the active mode carries the latest stamp any switch was given; along an exact stream the stamps of switches increase), streams folded against Modes()/ActiveMode()",
        "level_note": TRUST + "; set-active is documented not to stamp and is not required to; start times are checked against the injected clock's window of the call",
        "technique": "deterministic simulation (seeded scheduler, gates on the model mutex and hooks inside the underlying resources) + invariant and postcondition oracles",
        "rule": RULE_SCHED,
        "scenarios": [
            {"name": "elec", "quick": 40000, "thorough": 3000000, "thorough_time": 300},
        ],
        "require_hits": ["electric.mu", "resource.gau.commit", "collection.delete.commit"],
        "assumptions": ["server methods are called directly on ModelServer (the gRPC transport is C13's subject)"],
    },
    "C17": {
        "level": "exploration",
        "level_text": "members are simulator tasks, so the completion order is the schedule; seeded exploration over strategies x member counts x outcomes x completion orders x cancellation-aware/waiting members, with the finite space (strategy x n<=4 x outcomes x orders) measured and, in the thorough tier, required to be covered completely; large groups (60-120 members, all but the deciding one long-lived); the trait groups' unary Get/Update with a caller that goes away after the first failure was observed; contract, cancellation, panic and goroutine-leak oracles",
        "level_note": TRUST + "; cancellation is read no more strongly than the code documents it (a decided success of All/Most/Any must not cancel anybody; One derives no context)",
        "technique": "deterministic simulation (member completion order = seeded schedule) + strategy-contract oracle on (outcome vector, order) + synctest leak/panic monitor; measured coverage of the finite case space",
        "rule": ("runs are generated from the decision tape (strategy, direct or via Execute, n, outcomes, member kinds, release order of members); non-trivial = at least two members; "
                 "distinct = distinct (strategy, call path, n, outcome vector, completion order, member kinds, verdict) descriptions among non-trivial runs"),
        "scenarios": [
            {"name": "group", "quick": 120000, "thorough": 4000000, "thorough_time": 200},
            {"name": "group-traits", "quick": 20000, "thorough": 1000000, "thorough_time": 120},
            {"name": "group-unary", "quick": 10000, "thorough": 300000, "thorough_time": 40},
            {"name": "group-large", "quick": 4000, "thorough": 200000, "thorough_time": 60},
        ],
        "case_space": 2246,
        "case_space_what": "strategy in {All,Most,Any,Fast,Race} x n in 0..4 x every success/failure vector x every completion order (443 each) + One x n in 0..4 x every outcome vector (31); plain members only",
        "require_hits": [],
        "assumptions": ["members are cooperative functions that return when released (or when their context ends)"],
    },
    "C09": {
        "level": "exploration",
        "level_text": "seeded exploration of writer/consumer pacing with stall, abandon and fake-time advance faults: no-wait for lossy subscribers, validity of the lossy stream as an edit script of the consumer's own view, convergence after draining, the bounded failure of backpressured Value writes decided exactly on the fake clock, and slow backpressured consumers (Value: under 5 s per event; Collection: 5-8 s per event) that lose nothing while every write succeeds",
        "level_note": TRUST + "; the 5 s bound is taken from the property statement, not from the code; the merge table of mergeCollectionExcess is never consulted by the oracle",
        "technique": "deterministic simulation with fault injection (stall, abandon, fake-time advance) + edit-script validity / convergence / bounded-liveness oracles",
        "rule": RULE_SCHED,
        "scenarios": [
            {"name": "lossy-nowait", "quick": 30000, "thorough": 3000000, "thorough_time": 120},
            {"name": "lossy-paced", "quick": 30000, "thorough": 3000000, "thorough_time": 150},
            {"name": "bp-timeout", "quick": 30000, "thorough": 3000000, "thorough_time": 120},
            {"name": "bp-slow", "quick": 20000, "thorough": 3000000, "thorough_time": 120},
        ],
        "require_hits": ["stall", "abandon", "advance", "cancel"],
        "assumptions": ["the subscriptions judged for no-wait and loss are opened before the writers start; those that arrive or leave during the writes are judged for validity and convergence only"],
    },
    "C10": {
        "level": "fault_enumeration",
        "level_text": "cancellation and abandonment injected by scheduler-placed canceller tasks at every reachable step of Send/Listen/forwarding (random placement over many runs), at bus level, at resource level, on the trait models' Pull adapters and on trait group subscriptions; exactly-once / order / no-stall / closed-after-cancel / no-leak oracles; quiescence and leaks decided by synctest, not by sleeping",
        "level_note": TRUST + "; a goroutine still blocked at the end of the bubble with a sc-golang frame on its stack is a leak; panics on internal goroutines kill the worker and are attributed to the run by the driver",
        "technique": "deterministic simulation with fault injection (cancel / abandon at scheduler-chosen points) + exactly-once, ordering, closure and goroutine-leak oracles at synctest quiescence",
        "rule": RULE_SCHED,
        "scenarios": [
            {"name": "shut-bus", "quick": 40000, "thorough": 3000000, "thorough_time": 200},
            {"name": "shut-res", "quick": 40000, "thorough": 3000000, "thorough_time": 250},
            {"name": "shut-models", "quick": 30000, "thorough": 2000000, "thorough_time": 150},
            {"name": "shut-groups", "quick": 20000, "thorough": 1000000, "thorough_time": 100, "extra": ["-sim.only=leak,pull-stuck,panic,internal-panic"]},
        ],
        "require_hits": ["cancel", "abandon", "bus.collect", "bus.listen.register", "bus.send.each"],
        "assumptions": ["a listener's shutdown goroutine is delayed only in lazy runs; the late-delivery oracle applies to eager runs"],
    },
    "C04": {
        "level": "exploration",
        "level_text": "seeded exploration of single-writer histories (successful and failing writes, write times, clock jumps) against 1-3 backpressured consumers whose pace is decided by the scheduler; every received stream compared event by event with the edit script derived from the reference model (with an exact or a tolerance equivalence configured: an event may be missing only if its value is equivalent to what the subscriber was last sent); plus a subscriber that arrives while the writer is at work, whose stream must be the seed after j writes followed by exactly the script of the rest for an admissible j",
        "level_note": TRUST + "; reference model of appendix A; change times are checked against the injected clock's [invoke, return] window of the write (exactly against WithWriteTime)",
        "technique": "deterministic simulation (seeded scheduler, consumer pace = schedule) + expected edit script derived from the writer log through an executable reference model",
        "rule": RULE_SCHED,
        "scenarios": [
            {"name": "script-value", "quick": 40000, "thorough": 3000000, "thorough_time": 200},
            {"name": "script-coll", "quick": 40000, "thorough": 3000000, "thorough_time": 200},
        ],
        "require_hits": ["clock-jump", "bus.send.each", "collection.sub.listen", "value.sub.listen"],
        "assumptions": ["the writer's operations never overlap each other; the subscribers judged event by event are opened between writes, the arriving one at any moment", "with an equivalence configured an event whose projected value equals the previous one may be suppressed or delivered"],
    },
    "C08": {
        "level": "exploration",
        "level_text": "seeded exploration of write histories x include predicates given as truth tables over (id, value or absent) x backpressure on/off x updates-only, consumer pace decided by the scheduler; fold(stream) == List(WithInclude) == model filter after every phase (and fold == List with the same options for reads that carry two include options), and the exact per-event decision table under backpressure; a quarter of the runs with an equivalence that ignores the field the predicate reads (boundary crossings between equivalent values must still be delivered; views compared up to the equivalence there)",
        "level_note": TRUST + "; reference model of appendix A; where the predicate is true for absent values the exact event is not prescribed by the statement and only folding is checked",
        "technique": "deterministic simulation (seeded scheduler, consumer pace = schedule) + folded-view and per-event decision-table oracles from an executable reference model",
        "rule": RULE_SCHED,
        "scenarios": [
            {"name": "incl", "quick": 60000, "thorough": 6000000, "thorough_time": 300},
            {"name": "incl-twice", "quick": 20000, "thorough": 1000000, "thorough_time": 60},
            {"name": "incl-booking", "quick": 20000, "thorough": 2000000, "thorough_time": 120, "extra": ["-sim.only=booking-rpc,list-include,fold-mismatch,panic"]},
        ],
        "require_hits": ["bus.send.each", "collection.publish"],
        "assumptions": ["subscriptions are opened between writes (single-writer histories as in the statement)"],
    },
    "C01": {
        "level": "exploration",
        "level_text": "seeded generation of call sequences x option subsets x rng/clock faults for a single caller, compared call by call with an executable reference model (callbacks that complete the written message included); no schedule is involved, the simulator contributes the model, the faulted rng/clock seams and the live-subscriber observation of 'emits nothing'",
        "level_note": TRUST + "; the reference model (DESIGN.md appendix A) written from the documentation, flat scalar messages only (nested/oneof/map mask semantics are C05's subject)",
        "technique": "deterministic simulation, single task: seeded op/option/fault sequences against an executable reference model (refinement check per call)",
        "rule": ("call sequences are generated from the decision tape (length 1-30, ops and every option subset, ids, rng fault mode, clock jumps); a case is non-trivial when it has more than one call or at least one write option or fault; "
                 "distinct = distinct sequences of (operation kind, option set) signatures among non-trivial runs"),
        "scenarios": [
            {"name": "seq-value", "quick": 60000, "thorough": 6000000, "thorough_time": 150},
            {"name": "seq-coll", "quick": 100000, "thorough": 6000000, "thorough_time": 250},
            {"name": "seq-rich", "quick": 40000, "thorough": 3000000, "thorough_time": 100},
            {"name": "seq-writable", "quick": 20000, "thorough": 500000, "thorough_time": 30},
        ],
        "require_hits": ["rng-colliding", "rng-exhausted", "clock-jump", "rng-short-read-error", "rng-zero"],
        "assumptions": ["messages are flat (four scalar fields of TestAllTypes)", "writable-field sets are nil or non-empty"],
    },
    "C02": {
        "level": "exploration",
        "level_text": "seeded exploration of 2-4 writers interleaved at every hooked window of the optimistic read / change / lock / save / publish sequence; every history checked for linearizability against the reference model; trait-level read-modify-write (count deltas, enter/leave totals) and a trait whose writes continue in a goroutine of their own (brightness fades as scheduled tasks, clients calling while a fade ticks: an acknowledged later write is never overwritten) and a model that deletes on its own (the hail keep-alive collector against concurrent refreshes); on every discovered server: concurrent relative updates (delta / relative flags, small and large steps) come to what a second instance of the server makes of the same updates from one caller, and after generated concurrent Updates the state is the response of one of the successful ones and what those alone make of a second instance of the server, applied one after the other in some order; a model that keeps a log beside its resource (waste records) holds exactly the adds that reported success; operations that span a model's two resources (electric: find the normal mode, make it active) are one step for every concurrent caller; a model whose writes merge through an interceptor of its own (metadata) shows keys of refused calls nowhere; evidence over sampled schedules",
        "level_note": TRUST + "; porcupine v1.3.0 as linearizability checker; the reference model of DESIGN.md appendix A (validated against the implementation by C01)",
        "technique": "deterministic simulation (seeded scheduler over simhook windows) + porcupine linearizability check against an executable reference model + conservation checks",
        "rule": RULE_SCHED,
        "scenarios": [
            {"name": "lin-value", "quick": 40000, "thorough": 3000000, "thorough_time": 200},
            {"name": "lin-coll", "quick": 40000, "thorough": 3000000, "thorough_time": 200},
            {"name": "lin-count", "quick": 20000, "thorough": 1000000, "thorough_time": 60},
            {"name": "lin-tween", "quick": 10000, "thorough": 150000, "thorough_time": 40, "extra": ["-sim.only=lost-update,write-hangs,get-failed,panic,internal-panic"]},
            {"name": "lin-hail", "quick": 10000, "thorough": 500000, "thorough_time": 40},
            {"name": "lin-delta", "quick": 10000, "thorough": 500000, "thorough_time": 40},
            {"name": "lin-waste", "quick": 4000, "thorough": 100000, "thorough_time": 40},
            {"name": "lin-meta", "quick": 20000, "thorough": 1000000, "thorough_time": 60},
            {"name": "lin-elec", "quick": 20000, "thorough": 1000000, "thorough_time": 60, "extra": ["-sim.only=clear-active,delete-absent,active-mode-missing,two-normal-modes,active-mode-deleted,deadlock,caller-stuck,panic,internal-panic"]},
            {"name": "lin-servers", "quick": 50000, "thorough": 1000000, "thorough_time": 80},
        ],
        "require_hits": ["resource.gau.commit", "collection.delete.commit", "value.publish", "collection.publish"],
        "assumptions": ["internal library goroutines react immediately", "preemption only at hook points", "operations of one step are treated as concurrent (sound, slightly permissive)"],
    },
    "C03": {
        "level": "exploration",
        "level_text": "seeded exploration of writer/subscriber interleavings at every hooked window with true quiescence detection, also beside a backpressured subscription that is never read (every Value write then runs into its send bound on the fake clock; the lossy subscribers that keep receiving still end on Get); evidence over the sampled schedules, not a proof",
        "level_note": TRUST,
        "technique": "deterministic simulation (seeded scheduler over simhook windows, synctest quiescence), folded-view oracle at quiescence",
        "rule": RULE_SCHED,
        "scenarios": [
            {"name": "conv-value", "quick": 40000, "thorough": 3000000, "thorough_time": 200},
            {"name": "conv-coll", "quick": 40000, "thorough": 3000000, "thorough_time": 200},
        ],
        "require_hits": ["value.sub.listen", "collection.sub.listen", "value.publish", "collection.publish", "bus.send.each", "bus.listen.register"],
        "assumptions": ["preemption only at hook points (hand-placed and mechanical)"],
    },
}
