#!/usr/bin/env python3
"""Validate MANIFEST.json and evidence files against the schemas (uses the tooling venv's jsonschema if available)."""
import json, sys, glob
try:
    import jsonschema
except ImportError:
    print("jsonschema not available in this interpreter; run with python3-vt")
    sys.exit(0)
ok = True
m = json.load(open('/verif/MANIFEST.json'))
jsonschema.validate(m, json.load(open('/root/.vp/MANIFEST.schema.json')))
print("MANIFEST ok:", len(m['checks']), "checks,", len(m.get('not_applicable', [])), "n/a")
es = json.load(open('/root/.vp/EVIDENCE.schema.json'))
for f in sorted(glob.glob('/verif/evidence/*.json')):
    try:
        jsonschema.validate(json.load(open(f)), es)
        print("ok", f)
    except Exception as e:
        ok = False
        print("BAD", f, str(e)[:300])
ids = {json.loads(l)['id'] for l in open('/verif/properties.jsonl')}
claimed = {c['property_id'] for c in m['checks']}
na = {c['property_id'] for c in m.get('not_applicable', [])}
print("unaccounted:", sorted(ids - claimed - na), "overlap:", sorted(claimed & na))
sys.exit(0 if ok else 1)
