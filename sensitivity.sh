#!/bin/bash
# Sensitivity self-test: every "fix:" commit in /repo is reverted, one at a time, in a scratch worktree outside /repo
# and /verif; the check of the property it was found by must then report a violation (exit 1) within the quick budget.
# usage: ./sensitivity.sh            (prints one line per fix commit)
set -u
cd "$(dirname "$0")"
WT=/tmp/verif-sens-wt
declare -A PROP=(
 ["PullID stops its underlying Pull"]="C10"
 ["publish change events in the order"]="C03"
 ["a create that raced with another create"]="C02"
 ["store generated ids in their intercepted form"]="C01"
 ["Collection.Delete honours WithWriteTime"]="C04"
 ["include filter forwards changes"]="C08"
 ["PullID subscribes before it returns"]="C03"
 ["ExecuteFast and ExecuteRace no longer leak"]="C17"
 ["Execute with no members does not panic"]="C17"
 ["electric DeleteMode with allow-missing"]="C19"
 ["electric UpdateMode cannot create a second normal"]="C19"
 ["serialise access to the id generator"]="C11"
 ["parent model no longer edits the stored child"]="C07"
 ["metadata merge no longer writes into the stored"]="C07"
 ["wrap copies messages when they are sent"]="C13"
 ["wrap delivers SetHeader metadata"]="C13"
 ["route GetEnterLeaveEvent and ResetEnterLeaveTotals"]="C12"
 ["memory devices return the error of a rejected update"]="C14"
 ["open/close GetPositions applies the read mask"]="C14"
 ["open/close PullPositions delivers updates"]="C14"
 ["enter/leave Pull no longer strips occupant"]="C07"
 ["open/close PullPositions applies the read mask to a copy"]="C07"
 ["wrap guards the stream's close error"]="C11"
 ["open/close PullPositions lists positions"]="C14"
 ["wrap ends a call whose context is already done"]="C13"
 ["electric models no longer share one default random"]="C11"
 ["wrap stream operations report the call's cancellation"]="C13"
 ["a Collection subscriber skips the events of writes"]="C03"
 ["wrap guards a stream's trailer"]="C11"
 ["trait model Pull adapters stop with their context"]="C10"
 ["a bus Send that runs out of time at one listener"]="C10"
 ["a Value subscriber skips the event of a write"]="C04"
 ["a brightness fade ends quietly"]="C02"
 ["an open/close update that spans several positions"]="C14"
)
git -C /repo log --format='%h %s' | grep ' fix: ' | while read -r h subj; do
  prop=""
  for k in "${!PROP[@]}"; do case "$subj" in *"$k"*) prop=${PROP[$k]};; esac; done
  [ -z "$prop" ] && { echo "?? $h $subj (no property mapped)"; continue; }
  [ "$prop" = "-" ] && { echo "-- $h $subj (asynchronous start-up: only reachable with a real scheduler, demo test in findings/)"; continue; }
  rm -rf $WT; git -C /repo worktree prune; git -C /repo worktree add -q --detach $WT HEAD || exit 2
  if ! git -C $WT revert --no-commit $h >/dev/null 2>&1; then
    echo "-- $h $subj (revert conflicts with later commits, skipped)"; git -C /repo worktree remove --force $WT; continue
  fi
  if ! (cd $WT && GOFLAGS=-mod=mod GOPROXY=off GOSUMDB=off GOTOOLCHAIN=local go build ./... >/dev/null 2>&1); then
    echo "-- $h $subj (later commits build on it: the tree does not compile without it, skipped)"; git -C /repo worktree remove --force $WT; continue
  fi
  out=$(VERIF_REPO=$WT VERIF_OUT=/tmp/verif-sens-out ./check $prop quick 2>&1); rc=$?
  cls=$(echo "$out" | grep -m1 '^  class=' | sed 's/ scenario.*//')
  echo "rc=$rc $prop $h $subj |$cls"
  git -C /repo worktree remove --force $WT
done
git -C /repo worktree prune; rm -rf /tmp/verif-sens-out
