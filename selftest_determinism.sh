#!/bin/bash
# Determinism self-test: every scenario, N run indices, each executed in several fresh processes at GOMAXPROCS 1/4/16;
# the per-run trace hashes (schedule + observations + violation classes) must be identical everywhere.
# usage: ./selftest_determinism.sh [runs-per-scenario] [processes-per-GOMAXPROCS]
set -u
cd "$(dirname "$0")"
N=${1:-40}; P=${2:-3}
export GOFLAGS=-mod=mod GOPROXY=off GOSUMDB=off GOTOOLCHAIN=local GODEBUG=randautoseed=0
./check build >/dev/null || exit 2
BIN=build/sim.test
TMP=$(mktemp -d /tmp/verif-det.XXXX)
fail=0
for scn in $($BIN -sim.list | python3 -c "import sys,json; print(' '.join(e['Name'] for e in json.load(sys.stdin) if not e['Name'].startswith('race-')))"); do
  i=0
  for gmp in 1 4 16; do
    for p in $(seq 1 $P); do
      i=$((i+1))
      ( GOMAXPROCS=$gmp $BIN -test.run='^TestSim$' -sim.scn=$scn -sim.seed=7 -sim.count=$N -sim.shrink=false -sim.maxfail=100000 -sim.hashes=$TMP/$scn.$i.h >/dev/null 2>&1 ) &
    done
  done
  wait
  ref=$TMP/$scn.1.h
  bad=0
  for f in $TMP/$scn.*.h; do
    if ! cmp -s $ref $f; then bad=$((bad+1)); fi
  done
  lines=$(wc -l < $ref 2>/dev/null || echo 0)
  if [ "$bad" != 0 ] || [ "$lines" != "$N" ]; then
    echo "NONDETERMINISTIC $scn: $bad of $i processes differ (hash lines $lines/$N)"; fail=1
    diff $ref $(ls $TMP/$scn.*.h | tail -1) | head -5
  else
    echo "ok $scn: $N runs x $i processes identical"
  fi
done
rm -rf $TMP
exit $fail
