#!/bin/bash
# Determinism self-test: every (non-race) scenario, N run indices, each executed in many fresh processes; the per-run
# trace hashes (schedule + observations + violation classes) must be identical everywhere.
#   verdict:       GOMAXPROCS=1 (what the checks' workers use), P processes started together + P more one after another
#                  (two different worker counts / machine loads)
#   informational: the same at GOMAXPROCS=4 and 16 (the mechanical lock gates let an internal goroutine wait briefly for
#                  a running holder; with several Ps that wait depends on real timing, so rare differences there are
#                  reported but do not fail the self-test)
# usage: ./selftest_determinism.sh [runs-per-scenario] [processes]
set -u
cd "$(dirname "$0")"
N=${1:-40}; P=${2:-6}
export GOFLAGS=-mod=mod GOPROXY=off GOSUMDB=off GOTOOLCHAIN=local GODEBUG=randautoseed=0,asyncpreemptoff=1
./check build >/dev/null || exit 2
BIN=build/sim.test
TMP=$(mktemp -d /tmp/verif-det.XXXX)
fail=0
run() { GOMAXPROCS=$1 $BIN -test.run='^TestSim$' -sim.scn=$2 -sim.seed=7 -sim.count=$N -sim.shrink=false -sim.maxfail=100000 -sim.hashes=$3 >/dev/null 2>&1; }
for scn in $($BIN -sim.list | python3 -c "import sys,json; print(' '.join(e['Name'] for e in json.load(sys.stdin) if not e['Name'].startswith('race-')))"); do
  for p in $(seq 1 $P); do run 1 $scn $TMP/$scn.par$p.h & done; wait
  for p in $(seq 1 2); do run 1 $scn $TMP/$scn.seq$p.h; done
  ref=$TMP/$scn.par1.h; bad=0; tot=0
  for f in $TMP/$scn.par*.h $TMP/$scn.seq*.h; do tot=$((tot+1)); cmp -s $ref $f || bad=$((bad+1)); done
  lines=$(wc -l < $ref 2>/dev/null || echo 0)
  for g in 4 16; do for p in 1 2; do run $g $scn $TMP/$scn.g$g.$p.h & done; done; wait
  info=0; for f in $TMP/$scn.g*.h; do cmp -s $ref $f || info=$((info+1)); done
  if [ "$bad" != 0 ] || [ "$lines" != "$N" ]; then
    echo "NONDETERMINISTIC $scn: $bad of $tot GOMAXPROCS=1 processes differ (hash lines $lines/$N)"; fail=1
  else
    echo "ok $scn: $N runs x $tot processes identical at GOMAXPROCS=1; $info of 4 processes at GOMAXPROCS=4/16 differ (informational)"
  fi
done
rm -rf $TMP
exit $fail
