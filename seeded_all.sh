#!/bin/bash
# Re-runs the registered quick check(s) against every seeded change in seeded/, each in a scratch worktree of /repo's
# HEAD outside /repo and /verif (so that it can run beside other checks); prints one line per change.
# usage: [LANE=i LANES=n] ./seeded_all.sh [tier]     (several lanes may run side by side, each takes every n-th change)
set -u
cd "$(dirname "$0")"
TIER=${1:-quick}
LANE=${LANE:-0}; LANES=${LANES:-1}
WT=/tmp/verif-seedall-wt$LANE
k=-1
for d in $PWD/seeded/*/; do
  k=$((k+1)); [ $((k % LANES)) = $LANE ] || continue
  id=$(basename $d)
  by=$(python3 -c "import json;print(json.load(open('$d/meta.json')).get('detected_by','') or json.load(open('$d/meta.json'))['property'])")
  patch=$d/patch.diff; [ -f $d/patch-ported-to-current-tree.diff ] && patch=$d/patch-ported-to-current-tree.diff
  rm -rf $WT; git -C /repo worktree prune; git -C /repo worktree add -q --detach $WT HEAD || exit 2
  # patches were made against the tree of their day; where later fix: commits moved the context a three-way application
  # is tried (the patch's index lines name blobs that exist in /repo's object store), and where that conflicts a
  # hand-ported patch-ported-to-current-tree.diff (same change, current context) is kept next to the original
  if ! git -C $WT apply $patch 2>/dev/null && ! git -C $WT apply --3way $patch >/dev/null 2>&1; then echo "$id: patch does not apply"; git -C /repo worktree remove --force $WT; continue; fi
  if ! (cd $WT && GOFLAGS=-mod=mod GOPROXY=off GOSUMDB=off GOTOOLCHAIN=local go build ./... >/dev/null 2>&1); then echo "$id: does not build on the current tree"; git -C /repo worktree remove --force $WT; continue; fi
  line="$id:"
  for p in $(echo $by | tr ',/' '  '); do
    case $p in C[0-9][0-9]) ;; *) continue;; esac
    out=$(VERIF_REPO=$WT VERIF_OUT=/tmp/verif-seedall-out$LANE ./check $p $TIER 2>&1); rc=$?
    cls=$(echo "$out" | grep -m1 '^  class=' | sed 's/ scenario.*//;s/^ *//')
    line="$line $p rc=$rc $cls;"
  done
  echo "$line"
  git -C /repo worktree remove --force $WT
done
git -C /repo worktree prune; rm -rf /tmp/verif-seedall-out$LANE
