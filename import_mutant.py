#!/usr/bin/env python3
"""import_mutant.py <worktree> <property> <suffix>: copies a sub-agent's seeded change into seeded/<property>-<suffix>/
(patch.diff = library change only, demo test files, meta.json from the agent's MUTANT.md)."""
import json, os, re, subprocess, sys, shutil
wt, prop, suf = sys.argv[1:4]
out = "/verif/seeded/%s-%s" % (prop, suf)
os.makedirs(out, exist_ok=True)
diff = subprocess.run(["git", "-C", wt, "diff"], capture_output=True, text=True).stdout
open(out + "/patch.diff", "w").write(diff)
st = subprocess.run(["git", "-C", wt, "status", "--short"], capture_output=True, text=True).stdout
demos = [l[3:].strip() for l in st.splitlines() if l.startswith("??") and l.strip().endswith("_test.go")]
for d in demos:
    if len(demos) == 1:
        shutil.copy(os.path.join(wt, d), out + "/" + os.path.basename(d))
    else:
        os.makedirs(os.path.join(out, os.path.dirname(d)), exist_ok=True)
        shutil.copy(os.path.join(wt, d), os.path.join(out, d))
md = open(os.path.join(wt, "MUTANT.md")).read()
secs = re.split(r"\n##+ *\d[.)]? *", "\n" + md)
def sec(i):
    return re.sub(r"\s+", " ", secs[i]).strip()[:1800] if len(secs) > i else ""
pkgs = sorted({"./" + os.path.dirname(d) + "/" for d in demos})
meta = {
    "property": prop,
    "summary": sec(1),
    "needs_to_manifest": sec(2),
    "demo_file": demos[0] if demos else "",
    "extra_demo_files": demos[1:],
    "demo_cmd": "GOFLAGS=-mod=mod GOPROXY=off GOSUMDB=off GOTOOLCHAIN=local go test -vet=off -count=1 -run TestDemo " + " ".join(pkgs),
    "breaks_property": prop,
    "origin": "written by an independent sub-agent (wave q) given only the property text, one-line descriptions of the earlier changes to stay away from, the anchored file names and a scratch worktree",
}
json.dump(meta, open(out + "/meta.json", "w"), indent=1)
print(out, demos)
