#!/bin/bash
# usage: seeded_eval.sh <dir with patch.diff/meta.json/demo> <property> [tier]
# Confirms a seeded change in a scratch worktree (builds, existing suite passes, demo fails with / passes without it),
# then applies it to /repo, runs the property's check, and undoes it straight afterwards.
set -u
D=$(realpath $1); PROP=$2; TIER=${3:-quick}
export GOFLAGS=-mod=mod GOPROXY=off GOSUMDB=off GOTOOLCHAIN=local
WT=${SEED_WT:-/tmp/verif-seed-wt}
rm -rf $WT; git -C /repo worktree prune; git -C /repo worktree add -q --detach $WT HEAD || exit 2
demo=$(python3 -c "import json;print(json.load(open('$D/meta.json')).get('demo_file',''))")
cmd=$(python3 -c "import json;print(json.load(open('$D/meta.json')).get('demo_cmd',''))")
pkgdir=$(dirname "$demo")
P=$D/patch.diff
[ -f $D/patch-ported-to-current-tree.diff ] && P=$D/patch-ported-to-current-tree.diff
if ! git -C $WT apply $P 2>/dev/null; then
  # later fix: commits may have moved the context: 3-way, and keep the result as the patch used from here on
  if ! git -C $WT apply --3way $P >/dev/null 2>&1; then echo "RESULT patch does not apply"; git -C /repo worktree remove --force $WT; exit 3; fi
  git -C $WT diff HEAD > ${WT}.patch; git -C $WT reset -q; P=${WT}.patch
fi
( cd $WT && go build ./... ) || { echo "RESULT does not build"; git -C /repo worktree remove --force $WT; exit 3; }
suite=$(cd $WT && go test -vet=off -count=1 ./... 2>&1 | grep -v "no test files" | grep -vc "^ok")
for f in $D/*_test.go; do [ -f $f ] && cp $f $WT/$pkgdir/; done
# (demonstrations that span several packages are kept as a tree)
for t in pkg internal; do [ -d $D/$t ] && cp -r $D/$t $WT/; done
with=$(cd $WT && timeout 400 bash -c "$cmd" >${WT}-with.log 2>&1; echo $?)
git -C $WT apply -R $P
without=$(cd $WT && timeout 400 bash -c "$cmd" >${WT}-without.log 2>&1; echo $?)
echo "CONFIRM suite_failures=$suite demo_with_patch_rc=$with demo_without_patch_rc=$without"
# now the checks: against /repo itself (apply, check, undo) unless SEEDED_SCRATCH=1, in which case the same tree
# (HEAD + patch) is checked in the scratch worktree so that a background run using /repo is not disturbed
cd /verif
if [ "${SEEDED_SCRATCH:-0}" = 1 ]; then
  git -C $WT checkout -q -- . ; git -C $WT clean -fdq; git -C $WT apply $P
  export VERIF_REPO=$WT VERIF_OUT=${WT}-out
else
  git -C /repo worktree remove --force $WT
  git -C /repo apply $P || { echo "RESULT cannot apply to /repo"; exit 3; }
fi
for p in $PROP; do
  out=$(./check $p $TIER 2>&1); rc=$?
  echo "CHECK $p rc=$rc $(echo "$out" | grep -m1 '^  class=' | sed 's/ seed=.*//')"
  echo "$out" | grep -m2 -A6 "^VIOLATION" | cut -c1-400 | head -14
done
if [ "${SEEDED_SCRATCH:-0}" = 1 ]; then
  git -C /repo worktree remove --force $WT; rm -rf ${WT}-out
else
  git -C /repo checkout -- . ; git -C /repo status --short | head -3
  rm -rf /verif/replays/$PROP 2>/dev/null
fi
