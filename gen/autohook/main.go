// autohook rewrites copies of the repository's non-test Go sources so that every mutex acquisition that is not already
// preceded by a simhook call gets a lock gate: `simhook.Gate("auto:<file>:<line>", &<mutex expr>, <read?>)`, and so
// that the place where another goroutine classically gets in - right after a mutex is released (non-deferred
// Unlock/RUnlock) - gets a yield point `simhook.Yield("auto:unlock:<file>:<line>")`.
// Goroutines started by the library (`go func() {...}()` literals) get `simhook.Yield("auto:go:<file>:<line>")` as
// their first statement - the simulator may adopt the new goroutine there as a task of its own, so that *when* a pump,
// watcher or handler goroutine gets to run is a scheduling decision too - and every `for` loop inside such a literal gets
// a yield at the top of its body (`auto:loop:<file>:<line>`), so that an adopted pump can be preempted between items.
// (Yields in front of select statements were tried and dropped: they park a sender between taking the listener's lock
// and its select, and when it resumes with both the cancellation and a receiver ready the Go runtime picks the case at
// random - outside the simulator's control, so such runs do not replay.)
// The rewritten files are used through `go build -overlay`; nothing in the repository is touched. Because it works on
// whatever the working tree contains, lock sites added by a change under test are instrumented as well.
//
// usage: autohook <repo> <outdir>   (prints a JSON object {original path: rewritten path})
package main

import (
	"bytes"
	"encoding/json"
	"fmt"
	"go/ast"
	"go/format"
	"go/parser"
	"go/token"
	"os"
	"path/filepath"
	"regexp"
	"strconv"
	"strings"
)

const hookPkg = "github.com/smart-core-os/sc-golang/internal/simhook"

func main() {
	repo, out := os.Args[1], os.Args[2]
	res := map[string]string{}
	// functions and methods started with a go statement (`go s.pump(x)`), per directory, by name: they get the same
	// treatment as goroutine literals (a yield as first statement, yields at the top of their loops)
	goCalled := map[string]map[string]bool{}
	goStmt := regexp.MustCompile(`(?m)^\s*go\s+([A-Za-z_][A-Za-z0-9_.]*)\(`)
	for _, root := range []string{"pkg", "internal"} {
		_ = filepath.Walk(filepath.Join(repo, root), func(path string, info os.FileInfo, err error) error {
			if err != nil || info.IsDir() || !strings.HasSuffix(path, ".go") || strings.HasSuffix(path, "_test.go") {
				return nil
			}
			src, err := os.ReadFile(path)
			if err != nil {
				return nil
			}
			for _, m := range goStmt.FindAllSubmatch(src, -1) {
				name := string(m[1])
				if name == "func" {
					continue
				}
				if i := strings.LastIndex(name, "."); i >= 0 {
					name = name[i+1:]
				}
				dir := filepath.Dir(path)
				if goCalled[dir] == nil {
					goCalled[dir] = map[string]bool{}
				}
				goCalled[dir][name] = true
			}
			return nil
		})
	}
	for _, root := range []string{"pkg", "internal"} {
		_ = filepath.Walk(filepath.Join(repo, root), func(path string, info os.FileInfo, err error) error {
			if err != nil {
				return nil
			}
			rel, _ := filepath.Rel(repo, path)
			if info.IsDir() {
				if rel == "internal/simhook" || rel == "internal/testproto" || rel == "internal/verifsim" {
					return filepath.SkipDir
				}
				return nil
			}
			if !strings.HasSuffix(path, ".go") || strings.HasSuffix(path, "_test.go") || strings.HasSuffix(path, ".pb.go") {
				return nil
			}
			src, err := os.ReadFile(path)
			called := goCalled[filepath.Dir(path)]
			if err != nil || !(len(called) > 0 || bytes.Contains(src, []byte("Lock()")) || bytes.Contains(src, []byte("go func")) || bytes.Contains(src, []byte("select {")) || bytes.Contains(src, []byte("<-"))) {
				return nil
			}
			if rewritten, n := rewrite(rel, src, called); n > 0 {
				dst := filepath.Join(out, strings.ReplaceAll(rel, "/", "__"))
				if err := os.WriteFile(dst, rewritten, 0o644); err != nil {
					fmt.Fprintln(os.Stderr, err)
					os.Exit(1)
				}
				res[path] = dst
			}
			return nil
		})
	}
	b, _ := json.Marshal(res)
	fmt.Println(string(b))
}

func rewrite(rel string, src []byte, goCalled map[string]bool) ([]byte, int) {
	fset := token.NewFileSet()
	f, err := parser.ParseFile(fset, rel, src, parser.ParseComments)
	if err != nil {
		return nil, 0 // leave files that do not parse alone: the real build will complain
	}
	hookName := "simhook"
	hasImport := false
	for _, im := range f.Imports {
		if p, _ := strconv.Unquote(im.Path.Value); p == hookPkg {
			hasImport = true
			if im.Name != nil {
				hookName = im.Name.Name
			}
		}
	}
	n := 0
	isHookCall := func(s ast.Stmt) bool {
		es, ok := s.(*ast.ExprStmt)
		if !ok {
			return false
		}
		call, ok := es.X.(*ast.CallExpr)
		if !ok {
			return false
		}
		sel, ok := call.Fun.(*ast.SelectorExpr)
		if !ok {
			return false
		}
		id, ok := sel.X.(*ast.Ident)
		return ok && id.Name == hookName
	}
	lockCall := func(s ast.Stmt) (recv ast.Expr, read bool, ok bool) {
		es, isExpr := s.(*ast.ExprStmt)
		if !isExpr {
			return nil, false, false
		}
		call, isCall := es.X.(*ast.CallExpr)
		if !isCall || len(call.Args) != 0 {
			return nil, false, false
		}
		sel, isSel := call.Fun.(*ast.SelectorExpr)
		if !isSel || (sel.Sel.Name != "Lock" && sel.Sel.Name != "RLock") {
			return nil, false, false
		}
		switch sel.X.(type) {
		case *ast.Ident, *ast.SelectorExpr, *ast.StarExpr, *ast.ParenExpr, *ast.IndexExpr:
		default:
			return nil, false, false // not addressable for sure: leave alone
		}
		return sel.X, sel.Sel.Name == "RLock", true
	}
	unlockCall := func(s ast.Stmt) bool {
		es, isExpr := s.(*ast.ExprStmt)
		if !isExpr {
			return false
		}
		call, isCall := es.X.(*ast.CallExpr)
		if !isCall || len(call.Args) != 0 {
			return false
		}
		sel, isSel := call.Fun.(*ast.SelectorExpr)
		return isSel && (sel.Sel.Name == "Unlock" || sel.Sel.Name == "RUnlock")
	}
	yield := func(kind string, at token.Pos) ast.Stmt {
		pos := fset.Position(at)
		return &ast.ExprStmt{X: &ast.CallExpr{
			Fun:  &ast.SelectorExpr{X: ast.NewIdent(hookName), Sel: ast.NewIdent("Yield")},
			Args: []ast.Expr{&ast.BasicLit{Kind: token.STRING, Value: strconv.Quote(fmt.Sprintf("auto:%s:%s:%d", kind, rel, pos.Line))}},
		}}
	}
	isRecv := func(comm ast.Stmt) bool {
		var x ast.Expr
		switch c := comm.(type) {
		case *ast.ExprStmt:
			x = c.X
		case *ast.AssignStmt:
			if len(c.Rhs) == 1 {
				x = c.Rhs[0]
			}
		}
		u, ok := x.(*ast.UnaryExpr)
		return ok && u.Op == token.ARROW
	}
	var fix func(list []ast.Stmt) []ast.Stmt
	fix = func(list []ast.Stmt) []ast.Stmt {
		var out []ast.Stmt
		for i, s := range list {
			hooked := i > 0 && isHookCall(list[i-1])
			if recv, read, ok := lockCall(s); ok && !hooked {
				pos := fset.Position(s.Pos())
				point := fmt.Sprintf("auto:%s:%d", rel, pos.Line)
				gate := &ast.ExprStmt{X: &ast.CallExpr{
					Fun: &ast.SelectorExpr{X: ast.NewIdent(hookName), Sel: ast.NewIdent("Gate")},
					Args: []ast.Expr{
						&ast.BasicLit{Kind: token.STRING, Value: strconv.Quote(point)},
						&ast.UnaryExpr{Op: token.AND, X: recv},
						ast.NewIdent(strconv.FormatBool(read)),
					},
				}}
				out = append(out, gate)
				n++
			}
			switch s.(type) {
			case *ast.SelectStmt, *ast.SendStmt:
				if !hooked {
					out = append(out, yield("chan", s.Pos()))
					n++
				}
			case *ast.ExprStmt, *ast.AssignStmt:
				// a plain receive statement (`<-ch`, `v := <-ch`): like a send, a place where the goroutine may have to wait
				// for somebody else - and where that somebody may get in first
				if !hooked && isRecv(s) {
					out = append(out, yield("chan", s.Pos()))
					n++
				}
			}
			out = append(out, s)
			if unlockCall(s) && !(i+1 < len(list) && isHookCall(list[i+1])) {
				out = append(out, yield("unlock", s.Pos()))
				n++
			}
		}
		return out
	}
	ast.Inspect(f, func(node ast.Node) bool {
		switch b := node.(type) {
		case *ast.BlockStmt:
			b.List = fix(b.List)
		case *ast.CaseClause:
			b.Body = fix(b.Body)
		case *ast.CommClause:
			b.Body = fix(b.Body)
			// a select case that has just received something: the place where a goroutine that was woken with a value in
			// its hands can be overtaken before it has looked at it (the analogue of a yield after a Cond wake-up)
			if isRecv(b.Comm) && (len(b.Body) == 0 || !isHookCall(b.Body[0])) {
				b.Body = append([]ast.Stmt{yield("recv", b.Pos())}, b.Body...)
				n++
			}
		}
		return true
	})
	// goroutine bodies: a yield as first statement, and at the top of every loop inside them
	goBody := func(body *ast.BlockStmt, at token.Pos) {
		if len(body.List) == 0 || !isHookCall(body.List[0]) {
			body.List = append([]ast.Stmt{yield("go", at)}, body.List...)
			n++
		}
		ast.Inspect(body, func(inner ast.Node) bool {
			var lb *ast.BlockStmt
			switch l := inner.(type) {
			case *ast.ForStmt:
				lb = l.Body
			case *ast.RangeStmt:
				lb = l.Body
			case *ast.FuncLit:
				return false // loops of nested function literals are not the goroutine's own
			}
			if lb != nil && (len(lb.List) == 0 || !isHookCall(lb.List[0])) {
				lb.List = append([]ast.Stmt{yield("loop", inner.Pos())}, lb.List...)
				n++
			}
			return true
		})
	}
	ast.Inspect(f, func(node ast.Node) bool {
		gs, ok := node.(*ast.GoStmt)
		if !ok {
			return true
		}
		if lit, ok := gs.Call.Fun.(*ast.FuncLit); ok && lit.Body != nil {
			goBody(lit.Body, gs.Pos())
		}
		return true
	})
	// functions and methods of this package that are started with a go statement somewhere in it (matched by name)
	for _, d := range f.Decls {
		if fd, ok := d.(*ast.FuncDecl); ok && fd.Body != nil && goCalled[fd.Name.Name] {
			goBody(fd.Body, fd.Pos())
		}
	}
	if n == 0 {
		return nil, 0
	}
	if !hasImport {
		spec := &ast.ImportSpec{Path: &ast.BasicLit{Kind: token.STRING, Value: strconv.Quote(hookPkg)}}
		added := false
		for _, d := range f.Decls {
			if gd, ok := d.(*ast.GenDecl); ok && gd.Tok == token.IMPORT {
				gd.Specs = append(gd.Specs, spec)
				if !gd.Lparen.IsValid() {
					gd.Lparen = gd.Pos()
					gd.Rparen = gd.End()
				}
				added = true
				break
			}
		}
		if !added {
			f.Decls = append([]ast.Decl{&ast.GenDecl{Tok: token.IMPORT, Specs: []ast.Spec{spec}}}, f.Decls...)
		}
	}
	var buf bytes.Buffer
	if err := format.Node(&buf, fset, f); err != nil {
		return nil, 0
	}
	return buf.Bytes(), n
}
