#!/usr/bin/env python3
"""Regenerates MANIFEST.json from props.py (claimed checks) and the not-applicable table below."""
import json, subprocess, os, sys
sys.path.insert(0, os.path.dirname(os.path.abspath(__file__)))
from props import PROPS, NOT_APPLICABLE, PENDING

def hook_commits():
    out = subprocess.run(["git", "-C", "/repo", "log", "--format=%H %s"], capture_output=True, text=True).stdout
    return [l.split()[0] for l in out.splitlines() if l.split(" ", 1)[1].startswith("verif:")]

m = {
    "version": 1,
    "setup_cmd": "cd /verif && ./check build",
    "hooks": {
        "guard": "verif",
        "enable": "go1.26.8 test -c -tags verif -overlay build/overlay.json -modfile build/go.mod ./internal/verifsim (run from /repo by /verif/check; the harness sources in /verif/sim are overlaid as the virtual package internal/verifsim, nothing is written into /repo)",
        "baseline_off_cmd": "cd /repo && GOFLAGS=-mod=mod GOPROXY=off GOSUMDB=off GOTOOLCHAIN=local go test -vet=off -count=1 ./...",
        "source_commits": hook_commits(),
        "add_only": True,
    },
    "engines": [
        {"name": "verifsim", "path": "/verif/sim", "serves_properties": sorted(PROPS.keys()),
         "kind_free_text": "deterministic simulation: testing/synctest bubble per run, tasks parked at simhook points, seeded decision tape, delta-debugging shrinker, fresh-process replay"},
    ],
    "checks": [],
    "not_applicable": [],
    "notes": "All checks: ./check <id> quick|thorough; exit 0 held / 1 VIOLATION / 2 harness trouble. Known findings: known_findings.json. See DESIGN.md.",
}
for pid in sorted(PROPS):
    p = PROPS[pid]
    m["checks"].append({
        "property_id": pid,
        "quick_cmd": "./check %s quick" % pid,
        "thorough_cmd": "./check %s thorough" % pid,
        "evidence_file": "/verif/evidence/%s.json" % pid,
        "replay_cmd_template": "./check %s --replay {path}" % pid,
        "engine": "verifsim",
        "level_claimed": {"category": p["level"], "text": p["level_text"], "design_ref": p.get("design_ref", "DESIGN.md §5 " + pid)},
        "level_note": p["level_note"],
        "technique": p["technique"],
    })
for pid, reason in sorted(NOT_APPLICABLE.items()):
    m["not_applicable"].append({"property_id": pid, "reason": reason})
for pid, reason in sorted(PENDING.items()):
    if pid not in PROPS:
        m["not_applicable"].append({"property_id": pid, "reason": reason})
json.dump(m, open("/verif/MANIFEST.json", "w"), indent=1)
print("wrote MANIFEST.json with", len(m["checks"]), "checks")
